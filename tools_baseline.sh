#!/bin/bash
# Runs the repository's pinned test suite (guard off) and compares with BASELINE.json's stable_pass list.
set -u
OUT=${1:-/tmp/verif_baseline.junit.xml}
cd /repo && /venv/bin/python -m pytest -ra -q -p no:cacheprovider --timeout=900 --continue-on-collection-errors --junitxml=$OUT > ${OUT%.xml}.log 2>&1
python3 - "$OUT" <<'PY'
import json, sys, xml.etree.ElementTree as ET
base = set(json.load(open('/root/.vp/BASELINE.json'))['stable_pass'])
passed, failed = set(), set()
for tc in ET.parse(sys.argv[1]).getroot().iter('testcase'):
    tid = (tc.get('classname') or '') + '::' + (tc.get('name') or '')
    bad = any(ch.tag in ('failure', 'error') for ch in tc)
    skipped = any(ch.tag == 'skipped' for ch in tc)
    if bad: failed.add(tid)
    elif not skipped: passed.add(tid)
passed -= failed   # pytest-rerunfailures writes one entry per attempt: any failed attempt counts as failed
missing = sorted(base - passed)
print("baseline stable_pass: %d, passed now: %d, baseline tests not passing now: %d" % (len(base), len(passed), len(missing)))
for m in missing: print("  REGRESSION", m)
sys.exit(1 if missing else 0)
PY
