#!/usr/bin/env python3
"""Verify a seeded mutation independently: tools_seed_verify.py <name> <dir-with-patch.diff+demo.py>
 - scratch worktree of /repo HEAD under /tmp/seedverify/<name>
 - demo on clean tree must exit 0; patch must apply; demo with patch must exit != 0
 - full pinned test suite with the patch: every BASELINE stable_pass test must still pass
Prints a JSON summary; removes the worktree."""
import json, os, subprocess, sys, xml.etree.ElementTree as ET, shutil, time
name, d = sys.argv[1], os.path.abspath(sys.argv[2])
skip_suite = len(sys.argv) > 3 and sys.argv[3] == "--no-suite"
wt = "/tmp/seedverify/%s" % name
os.makedirs("/tmp/seedverify", exist_ok=True)
subprocess.run(["git", "-C", "/repo", "worktree", "remove", "--force", wt], capture_output=True)
subprocess.run(["git", "-C", "/repo", "worktree", "add", "-q", "--detach", wt, "HEAD"], check=True)
env = dict(os.environ, PYTHONPATH=wt + "/src", PYTHONHASHSEED="0")
def demo():
    p = subprocess.run(["/venv/bin/python", "-W", "ignore", os.path.join(d, "demo.py")], env=env, cwd=wt, capture_output=True, text=True, timeout=1800)
    return p.returncode, (p.stdout + p.stderr)[-600:]
out = dict(name=name, head=subprocess.run(["git", "-C", "/repo", "rev-parse", "--short", "HEAD"], capture_output=True, text=True).stdout.strip())
try:
    rc0, o0 = demo()
    out["demo_clean_rc"] = rc0
    ap = subprocess.run(["git", "-C", wt, "apply", os.path.join(d, "patch.diff")], capture_output=True, text=True)
    out["patch_applies"] = ap.returncode == 0
    if ap.returncode != 0:
        out["apply_err"] = ap.stderr[-300:]
    else:
        rc1, o1 = demo()
        out["demo_patched_rc"] = rc1
        out["demo_patched_tail"] = o1[-300:]
        if not skip_suite:
            junit = "/tmp/seedverify/%s.junit.xml" % name
            t0 = time.time()
            subprocess.run(["/venv/bin/python", "-m", "pytest", "-q", "-p", "no:cacheprovider", "--timeout=900",
                            "--continue-on-collection-errors", "--junitxml=" + junit], env=env, cwd=wt,
                           capture_output=True, text=True, timeout=7200)
            out["suite_s"] = round(time.time() - t0)
            base = set(json.load(open("/root/.vp/BASELINE.json"))["stable_pass"])
            passed, failed = set(), set()
            for tc in ET.parse(junit).getroot().iter("testcase"):
                tid = (tc.get("classname") or "") + "::" + (tc.get("name") or "")
                if any(ch.tag in ("failure", "error") for ch in tc): failed.add(tid)
                elif not any(ch.tag == "skipped" for ch in tc): passed.add(tid)
            passed -= failed
            out["suite_passed"] = len(passed)
            out["baseline_regressions"] = sorted(base - passed)
    out["ok"] = (out.get("demo_clean_rc") == 0 and out.get("patch_applies") and out.get("demo_patched_rc", 0) != 0
                 and (skip_suite or not out.get("baseline_regressions")))
finally:
    subprocess.run(["git", "-C", "/repo", "worktree", "remove", "--force", wt], capture_output=True)
print(json.dumps(out, indent=1))
json.dump(out, open("/tmp/seedverify/%s.json" % name, "w"), indent=1)
