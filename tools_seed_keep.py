#!/usr/bin/env python3
"""tools_seed_keep.py <seedname e.g. C04_m1> <srcdir>: copy a verified seeded mutation into /verif/seeded/<seedname>/"""
import json, os, shutil, sys
name, src = sys.argv[1], sys.argv[2]
ver = json.load(open("/tmp/seedverify/%s.json" % name))
assert ver.get("ok"), "not verified: %s" % ver
dst = "/verif/seeded/%s" % name
os.makedirs(dst, exist_ok=True)
for f in ("patch.diff", "demo.py", "notes.txt"):
    if os.path.exists(os.path.join(src, f)):
        shutil.copy(os.path.join(src, f), os.path.join(dst, f))
notes = open(os.path.join(src, "notes.txt")).read() if os.path.exists(os.path.join(src, "notes.txt")) else ""
meta = dict(seed=name, property=name.split("_")[0], origin="independent sub-agent given only the property text and a scratch worktree",
            needs_to_manifest=notes[:1500],
            verified_by_me=dict(repo_head=ver["head"], demo_on_clean_tree_rc=ver["demo_clean_rc"], demo_with_patch_rc=ver["demo_patched_rc"],
                                patch_applies=ver["patch_applies"], full_suite_with_patch=dict(passed=ver.get("suite_passed"), baseline_stable_pass_regressions=ver.get("baseline_regressions"), seconds=ver.get("suite_s")),
                                command="python3 tools_seed_verify.py %s <dir> (scratch worktree under /tmp/seedverify, removed afterwards)" % name),
            detected_by=None)
json.dump(meta, open(os.path.join(dst, "meta.json"), "w"), indent=1)
print("kept", dst)
