#!/bin/bash
# tools_seed_run.sh <seedname> <Cnn> [tier] : apply seeded patch to /repo, run the check, undo. Prints exit code and VIOLATION lines.
set -u
seed=$1; pid=$2; tier=${3:-quick}
cd /verif
if [ -n "$(git -C /repo status --porcelain --untracked-files=no)" ]; then echo "REPO DIRTY"; exit 3; fi
git -C /repo apply /verif/seeded/$seed/patch.diff || { echo "PATCH DOES NOT APPLY"; exit 3; }
/venv/bin/python checks/run.py $pid --tier $tier > /tmp/seedrun_${seed}_${pid}.log 2>&1
rc=$?
git -C /repo checkout -- .
echo "seed=$seed check=$pid tier=$tier exit=$rc"
grep -E "^VIOLATION|HARNESS-ERROR" /tmp/seedrun_${seed}_${pid}.log | head -5
grep -A1 "^VIOLATION" /tmp/seedrun_${seed}_${pid}.log | grep obligation | cut -c1-400 | head -3
tail -1 /tmp/seedrun_${seed}_${pid}.log | cut -c1-200
# restore evidence of the unchanged tree
git -C /verif checkout -- evidence/$pid.json 2>/dev/null
exit 0
