#!/bin/bash
# Runs every check's thorough tier once, sequentially; prints exit code and wall time per check.
cd "$(dirname "$0")"
for id in ${@:-C04 C05 C09 C07 C08 C15 C10 C16 C03 C06 C12 C14 C20 C11 C19 C17 C18 C13 C01 C02 C21}; do
  t0=$(date +%s)
  /venv/bin/python checks/run.py $id --tier thorough > thorough_$id.log 2>&1
  rc=$?
  echo "$id exit=$rc wall=$(( $(date +%s) - t0 ))s $(grep -E "^$id thorough:" thorough_$id.log | tail -1)"
  grep -E "^VIOLATION|^HARNESS-ERROR" thorough_$id.log | head -5
done
