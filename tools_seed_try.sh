#!/bin/bash
# tools_seed_try.sh <patch file> <Cnn> [tier]: applies an arbitrary patch in a scratch worktree of /repo's HEAD and runs one check against it
set -u
patch=$1; pid=$2; tier=${3:-quick}
tag=$(echo "$patch" | tr '/.' '__')
wt=/tmp/seedrepo_try_$tag
git -C /repo worktree remove --force $wt 2>/dev/null
git -C /repo worktree add -q --detach $wt HEAD || exit 3
git -C $wt apply "$patch" || { echo "PATCH DOES NOT APPLY"; git -C /repo worktree remove --force $wt; exit 3; }
cd /verif
VERIF_REPO=$wt PYTHONPATH=$wt/src /venv/bin/python checks/run.py $pid --tier $tier > /tmp/seedtry_${tag}_${pid}.log 2>&1
rc=$?
git -C /repo worktree remove --force $wt
echo "patch=$patch check=$pid tier=$tier exit=$rc"
grep -A1 "^VIOLATION" /tmp/seedtry_${tag}_${pid}.log | grep obligation | cut -c1-300 | head -2
tail -1 /tmp/seedtry_${tag}_${pid}.log | cut -c1-200
git -C /verif checkout -- evidence/$pid.json 2>/dev/null
exit 0
