#!/bin/bash
# tools_seed_retest.sh <name> <dir> <pytest node ids...> : rerun single tests with the patch in a scratch worktree
name=$1; d=$2; shift 2
wt=/tmp/seedverify/rt_$name
git -C /repo worktree remove --force $wt 2>/dev/null
git -C /repo worktree add -q --detach $wt HEAD && git -C $wt apply $d/patch.diff || exit 3
cd $wt && PYTHONPATH=$wt/src /venv/bin/python -m pytest -q -p no:cacheprovider --timeout=900 "$@" 2>&1 | tail -3
git -C /repo worktree remove --force $wt
