#!/bin/bash
# tools_seed_run2.sh <seedname> <Cnn> [tier]: like tools_seed_run.sh but leaves /repo untouched: the patch is applied in a scratch
# worktree of /repo's HEAD and the check is pointed at it (VERIF_REPO + PYTHONPATH).  For use while other runs read /repo.
set -u
seed=$1; pid=$2; tier=${3:-quick}
wt=/tmp/seedrepo_$seed
git -C /repo worktree remove --force $wt 2>/dev/null
git -C /repo worktree add -q --detach $wt HEAD || exit 3
git -C $wt apply /verif/seeded/$seed/patch.diff || { echo "PATCH DOES NOT APPLY"; git -C /repo worktree remove --force $wt; exit 3; }
cd /verif
VERIF_REPO=$wt PYTHONPATH=$wt/src /venv/bin/python checks/run.py $pid --tier $tier > /tmp/seedrun_${seed}_${pid}.log 2>&1
rc=$?
git -C /repo worktree remove --force $wt
echo "seed=$seed check=$pid tier=$tier exit=$rc"
grep -E "^VIOLATION|HARNESS-ERROR" /tmp/seedrun_${seed}_${pid}.log | head -3
grep -A1 "^VIOLATION" /tmp/seedrun_${seed}_${pid}.log | grep obligation | cut -c1-400 | head -2
tail -1 /tmp/seedrun_${seed}_${pid}.log | cut -c1-200
git -C /verif checkout -- evidence/$pid.json 2>/dev/null
exit 0
