#!/bin/bash
# Runs every check's quick tier once, sequentially (as `vp check` does); prints exit code and wall time per check.
cd "$(dirname "$0")"
/venv/bin/python checks/setup.py > /dev/null 2>&1
for id in ${@:-C01 C02 C03 C04 C05 C06 C07 C08 C09 C10 C11 C12 C13 C14 C15 C16 C17 C18 C19 C20 C21}; do
  t0=$(date +%s)
  /venv/bin/python checks/run.py $id --tier quick > quick_$id.log 2>&1
  rc=$?
  echo "$id exit=$rc wall=$(( $(date +%s) - t0 ))s $(grep -E "^$id quick:" quick_$id.log | tail -1)"
  grep -E "^VIOLATION|^HARNESS-ERROR" quick_$id.log | head -5
done
