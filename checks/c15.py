"""C15 — integer intervals inferred from a regex are exactly the numbers it matches; compressing a
concatenation never changes the language.

O1 soundness     L(R) subseteq NumLang(I)            one emptiness query  s in R /\\ s notin NumLang(I)
O2 completeness  every n in I has a rendering in L(R): candidate c from a bounded-padding query, confirmed
                 exactly by the emptiness query  L(R) cap [+]?0*c = {} (resp. -0*c)
O3 compress_concatenation_elements: Concat(xs) == Concat(compress(xs)) as one emptiness query on the
                 symmetric difference; AssertionError = violation
O4 merge_intervals under CrossHair (symbolic endpoints)

R ranges over the derivations of the BNF in numeric_intervals_from_regex's own docstring (extracted from
the current source on every run); I is what the real function returns.  All strings, unbounded length.
"""
from __future__ import annotations

import itertools
import os
import re
import sys
import time
from typing import Any, Dict, List, Optional, Tuple

import common
import smt
import xh

INF = sys.maxsize
# cvc5 1.0.3 answers most of these regex emptiness queries in ms or not at all: it is a cross-check, z3 5.1.0 decides
CVC5_FAST = {"cvc5": 1200}
DIGITS = ["0", "1", "3", "9"]


# ------------------------------------------------------------------ program family from the docstring BNF

def docstring_grammar() -> Dict[str, List[str]]:
    import vlib
    vlib.import_isla()
    from isla.z3_helpers import numeric_intervals_from_regex
    from isla.language import parse_bnf
    doc = numeric_intervals_from_regex.__doc__
    m = re.search(r"ordered\)::\n(.*?)\n\s*For expressions outside", doc, re.S)
    if not m:
        raise common.HarnessError("BNF not found in the docstring of numeric_intervals_from_regex")
    return parse_bnf(m.group(1))


def enumerate_regexes(grammar, depth: int, cap: int) -> List[str]:
    """All derivations up to `depth` with evenly spaced sampling (cap per nonterminal and depth)."""
    from isla.helpers import canonical
    can = canonical(grammar)
    memo: Dict[Tuple[str, int], List[str]] = {}

    def gen(sym: str, d: int) -> List[str]:
        key = (sym, d)
        if key in memo:
            return memo[key]
        out: List[str] = []
        if sym == "<digit>":
            out = list(DIGITS)
        else:
            for alt in can[sym]:
                nts = [e for e in alt if e.startswith("<") and e.endswith(">") and e in can]
                if nts and d == 0:
                    continue
                pools = []
                ok = True
                for e in alt:
                    if e in can:
                        g = gen(e, d - 1)
                        if not g:
                            ok = False
                            break
                        pools.append(g)
                    else:
                        pools.append([e])
                if not ok:
                    continue
                total = 1
                for p in pools:
                    total *= len(p)
                if total <= cap or len(pools) == 1:
                    combos = itertools.product(*pools)
                else:
                    # evenly spaced sample of the product, deterministic
                    step = total / cap
                    idxs = sorted({int(i * step) for i in range(cap)})

                    def nth(i, pools=pools):
                        res = []
                        for p in reversed(pools):
                            res.append(p[i % len(p)])
                            i //= len(p)
                        return tuple(reversed(res))
                    combos = (nth(i) for i in idxs)
                for c in combos:
                    out.append("".join(c))
        seen = set()
        uniq = []
        for o in out:
            if o not in seen:
                seen.add(o)
                uniq.append(o)
        lim = cap * (12 if sym in ("<regex>", "<start>", "<sequence>", "<union>") else 3)
        if len(uniq) > lim:
            step = len(uniq) / lim
            uniq = [uniq[int(i * step)] for i in range(lim)]
        memo[key] = uniq
        return uniq

    res = []
    for d in range(0, depth + 1):
        for s in gen("<start>", d):
            if s not in res:
                res.append(s)
    return res


# ------------------------------------------------------------------ NumLang: all renderings of the integers of I

def _dig(a: str, b: str) -> str:
    return '(str.to_re "%s")' % a if a == b else '(re.range "%s" "%s")' % (a, b)


def _cat(*xs: str) -> str:
    xs = [x for x in xs if x != '(str.to_re "")']
    if not xs:
        return '(str.to_re "")'
    return xs[0] if len(xs) == 1 else "(re.++ %s)" % " ".join(xs)


def _uni(*xs: str) -> str:
    xs = [x for x in xs if x != "re.none"]
    if not xs:
        return "re.none"
    return xs[0] if len(xs) == 1 else "(re.union %s)" % " ".join(xs)


def _anyd(n: int) -> str:
    return _cat(*['(re.range "0" "9")'] * n)


def _same_len(a: str, b: str) -> str:
    """numerals of len(a)==len(b) digits between a and b (leading zeros allowed: digit strings)"""
    if not a:
        return '(str.to_re "")'
    if a > b:
        return "re.none"
    if a[0] == b[0]:
        return _cat(_dig(a[0], a[0]), _same_len(a[1:], b[1:]))
    n = len(a) - 1
    parts = [_cat(_dig(a[0], a[0]), _same_len(a[1:], "9" * n))]
    if int(b[0]) - int(a[0]) >= 2:
        parts.append(_cat(_dig(str(int(a[0]) + 1), str(int(b[0]) - 1)), _anyd(n)))
    parts.append(_cat(_dig(b[0], b[0]), _same_len("0" * n, b[1:])))
    return _uni(*parts)


def dec_range(lo: int, hi: Optional[int]) -> str:
    """canonical decimal numerals (no leading zeros, '0' for zero) of the integers lo..hi, hi None = unbounded; lo >= 0"""
    assert lo >= 0
    if hi is not None and lo > hi:
        return "re.none"
    parts = []
    n_lo = len(str(lo))
    if hi is None:
        parts.append(_same_len(str(lo), "9" * n_lo))
        parts.append(_cat('(re.range "1" "9")', _anyd(n_lo), '(re.* (re.range "0" "9"))'))
        return _uni(*parts)
    n_hi = len(str(hi))
    if n_lo == n_hi:
        return _same_len(str(lo), str(hi))
    parts.append(_same_len(str(lo), "9" * n_lo))
    for n in range(n_lo + 1, n_hi):
        parts.append(_cat('(re.range "1" "9")', _anyd(n - 1)))
    parts.append(_same_len("1" + "0" * (n_hi - 1), str(hi)))
    return _uni(*parts)


ZS = '(re.* (str.to_re "0"))'
ZP = '(re.+ (str.to_re "0"))'


def numlang(intervals: List[Tuple[int, int]]) -> str:
    parts = []
    for a, b in intervals:
        lo = None if a <= -INF else a
        hi = None if b >= INF else b
        # non-negative part
        if hi is None or hi >= 0:
            l0 = 0 if (lo is None or lo < 0) else lo
            parts.append(_cat('(re.opt (str.to_re "+"))', ZS, dec_range(l0, hi)))
        if (lo is None or lo <= 0) and (hi is None or hi >= 0):
            parts.append(_cat('(str.to_re "-")', ZP))   # -0, -00: value 0
        # negative part: magnitudes
        if lo is None or lo < 0:
            m_hi = None if lo is None else -lo
            m_lo = 1 if (hi is None or hi >= -1) else -hi
            parts.append(_cat('(str.to_re "-")', ZS, dec_range(m_lo, m_hi)))
    return _uni(*parts)


def canon(intervals: List[Tuple[int, int]]) -> Tuple[str, str]:
    """(regex of canonical non-negative numerals in I, regex of canonical magnitudes of the negative members)"""
    pos, neg = [], []
    for a, b in intervals:
        lo = None if a <= -INF else a
        hi = None if b >= INF else b
        if hi is None or hi >= 0:
            pos.append(dec_range(0 if (lo is None or lo < 0) else lo, hi))
        if lo is None or lo < 0:
            neg.append(dec_range(1 if (hi is None or hi >= -1) else -hi, None if lo is None else -lo))
    return _uni(*pos), _uni(*neg)


def value_of(s: str) -> Optional[int]:
    if not re.fullmatch(r"[+-]?[0-9]+", s):
        return None
    return int(s)


def in_intervals(v: int, intervals) -> bool:
    return any((a <= -INF or a <= v) and (b >= INF or v <= b) for a, b in intervals)


def shape(r) -> str:
    import z3
    def nm(e, d):
        k = e.decl().name()
        if d == 0 or not e.children():
            return k
        return "%s(%s)" % (k, ",".join(nm(c, d - 1) for c in e.children() if z3.is_re(c)))
    return nm(r, 2)[:120]


# ------------------------------------------------------------------ workers

HISTORY_SEP = " ;;evaluated-before;; "


def _nest(op: str, items: List[str]) -> str:
    """right-nested binary applications: deeper than z3's pretty printer prints (it abbreviates below depth 20)"""
    out = items[-1]
    for x in reversed(items[:-1]):
        out = "z3.%s(%s, %s)" % (op, x, out)
    return out


def history_family() -> List[str]:
    """pairs of DEEP regexes that agree near the root and differ only far below it, evaluated one after the other in one
    process (both orders): the result for a regex must not depend on what was evaluated before"""
    alts = ['z3.Re("%d")' % n for n in range(10, 58, 2)]
    u1, u2 = _nest("Union", alts + ['z3.Re("70")']), _nest("Union", alts + ['z3.Re("90")'])
    zeros = ['z3.Re("0")'] * 23
    c1, c2 = _nest("Concat", zeros + ['z3.Range("1", "5")']), _nest("Concat", zeros + ['z3.Range("1", "7")'])
    out = []
    for a, b in ((u1, u2), (c1, c2)):
        out += [a + HISTORY_SEP + b, b + HISTORY_SEP + a]
    out.append("z3.Union(%s, %s)" % (u1, u2))
    return out


def _init():
    import warnings
    warnings.filterwarnings("ignore")
    import vlib
    vlib.import_isla()


def regex_worker(text: str) -> Dict[str, Any]:
    import warnings
    warnings.filterwarnings("ignore")
    import vlib
    vlib.import_isla()
    import z3
    from isla.z3_helpers import numeric_intervals_from_regex
    from returns.maybe import Nothing
    out: Dict[str, Any] = dict(regex=text, results=[])
    if HISTORY_SEP in text:
        # call history: the same process first evaluates another regex (its result is not judged here)
        first, text = text.split(HISTORY_SEP)
        try:
            numeric_intervals_from_regex(eval(first, {"z3": z3}))
        except Exception:
            pass
    try:
        R = eval(text, {"z3": z3})
    except Exception as e:
        return dict(out, skipped="cannot build: %r" % e)
    if any(c.decl().kind() == z3.Z3_OP_RE_RANGE and c.children()[0].as_string() > c.children()[1].as_string()
           for c in _subterms(R)):
        return dict(out, skipped="unordered range (outside the documented shape)")
    try:
        res = numeric_intervals_from_regex(R)
    except Exception as e:
        out["results"].append(dict(name="call", verdict="violated", key="raises-%s/%s" % (type(e).__name__, shape(R)),
                                   what="numeric_intervals_from_regex(%s) raised %s: %s" % (text, type(e).__name__, str(e)[:160]), s=0.0))
        return out
    if res == Nothing:
        return dict(out, nothing=True)
    I = [tuple(x) for x in res.unwrap()]
    out["intervals"] = I
    Rs = smt.portable(R.sexpr())
    # ---- precondition: the regex denotes numerals only (optional sign, digits); decided by the solver
    NUM = '(re.++ (re.opt (re.union (str.to_re "+") (str.to_re "-"))) (re.+ (re.range "0" "9")))'
    r0 = smt.decide("(declare-const s String)", ["(str.in_re s (re.inter %s (re.comp %s)))" % (Rs, NUM)], ["s"], timeout_ms=10000, timeout_overrides=CVC5_FAST)
    if r0["verdict"] == "sat":
        return dict(out, non_numeral=r0["values"].get("s"))
    if r0["verdict"] != "unsat":
        out["results"].append(dict(name="precondition", verdict="inconclusive", reason=str(r0["answers"]), s=r0["s"]))
        return out
    # ---- O1 soundness
    q = "(str.in_re s (re.inter %s (re.comp %s)))" % (Rs, numlang(I))
    r = smt.decide("(declare-const s String)", [q], ["s"], timeout_ms=10000, timeout_overrides=CVC5_FAST)
    if r["verdict"] == "unsat":
        out["results"].append(dict(name="O1-sound", verdict="discharged", s=r["s"], answers=r["answers"]))
    elif r["verdict"] == "sat":
        s = r["values"].get("s")
        v = value_of(s) if isinstance(s, str) else None
        real_in = isinstance(s, str) and z3.is_true(z3.simplify(z3.InRe(z3.StringVal(s), R)))
        if real_in and (v is None or not in_intervals(v, I)):
            out["results"].append(dict(name="O1-sound", verdict="violated", key="O1-sound/" + shape(R), s=r["s"],
                                       what="%s matches %r (value %s) but the inferred intervals are %s" % (text, s, v, I),
                                       replay=dict(regex=out["regex"], string=s)))
        else:
            out["results"].append(dict(name="O1-sound", verdict="harness-error", s=r["s"],
                                       what="model %r did not reproduce (in L(R)=%s, value=%s, I=%s)" % (s, real_in, v, I)))
    else:
        out["results"].append(dict(name="O1-sound", verdict="inconclusive", reason=str(r["answers"]), s=r["s"]))
    # ---- O2 completeness
    pos, neg = canon(I)
    t_total = 0.0
    verdict = None
    for sign, creg, prefixes in (("+", pos, ["", "0", "00", "000", "0000", "00000", "+", "+0", "+00", "+000", "+0000", "+00000"]), ("-", neg, ["-", "-0", "-00", "-000", "-0000", "-00000"])):
        if creg == "re.none":
            continue
        blocked: List[str] = []
        for attempt in range(6):
            asserts = ["(str.in_re c %s)" % creg]
            asserts += ['(not (str.in_re (str.++ "%s" c) %s))' % (p, Rs) for p in prefixes]
            asserts += ['(not (= c "%s"))' % b for b in blocked]
            r = smt.decide("(declare-const c String)", asserts, ["c"], timeout_ms=10000, timeout_overrides=CVC5_FAST)
            t_total += r["s"]
            if r["verdict"] == "unsat":
                break
            if r["verdict"] != "sat" or not isinstance(r["values"].get("c"), str):
                verdict = ("inconclusive", str(r["answers"]))
                break
            c = r["values"]["c"]
            # exact confirmation for this concrete c: does ANY rendering of this integer lie in L(R)?
            rend = _cat('(re.opt (str.to_re "+"))' if sign == "+" else '(str.to_re "-")', ZS, '(str.to_re "%s")' % c)
            if sign == "+" and int(c) == 0:
                rend = _uni(rend, _cat('(str.to_re "-")', ZP))
            r2 = smt.decide("(declare-const s String)", ["(str.in_re s (re.inter %s %s))" % (Rs, rend)], ["s"], timeout_ms=10000, timeout_overrides=CVC5_FAST)
            t_total += r2["s"]
            if r2["verdict"] == "unsat":
                n = int(c) if sign == "+" else -int(c)
                verdict = ("violated", "%s: the inferred intervals %s contain %d but no rendering of %d is matched" % (text, I, n, n), n)
                break
            if r2["verdict"] == "sat":
                blocked.append(c)   # matched with more padding than the bounded query tried
                continue
            verdict = ("inconclusive", str(r2["answers"]))
            break
        else:
            verdict = ("inconclusive", "completeness candidates kept being matched with deeper padding")
        if verdict:
            break
    if verdict is None:
        out["results"].append(dict(name="O2-complete", verdict="discharged", s=t_total))
    elif verdict[0] == "violated":
        full = any(c.decl().kind() in (z3.Z3_OP_RE_STAR, z3.Z3_OP_RE_PLUS) and c.children()[0].sexpr() == z3.Range("0", "9").sexpr()
                   for c in _subterms(R))
        key = "O2-complete/full-range-symmetric" if (full and I == [(-INF, INF)]) else "O2-complete/" + shape(R)
        out["results"].append(dict(name="O2-complete", verdict="violated", key=key, s=t_total,
                                   what=verdict[1], replay=dict(regex=out["regex"], missing=verdict[2])))
    else:
        out["results"].append(dict(name="O2-complete", verdict="inconclusive", reason=verdict[1], s=t_total))
    return out


def _subterms(e):
    yield e
    for c in e.children():
        yield from _subterms(c)


ELEM_BASES = ['z3.Re("a")', 'z3.Range("0", "9")', 'z3.Re("0")', 'z3.Re("ab")']


def compress_worker(texts: Tuple[str, ...]) -> Dict[str, Any]:
    import warnings
    warnings.filterwarnings("ignore")
    import vlib
    vlib.import_isla()
    import z3
    from isla.z3_helpers import compress_concatenation_elements
    xs = [eval(t, {"z3": z3}) for t in texts]
    name = "[" + ", ".join(texts) + "]"
    try:
        ys = compress_concatenation_elements(xs)
    except Exception as e:
        return dict(name=name, verdict="violated", key="O3-compress/raises-%s" % type(e).__name__, s=0.0,
                    what="compress_concatenation_elements(%s) raised %s: %s" % (name, type(e).__name__, str(e)[:120]),
                    replay=dict(elements=list(texts)))
    def cat(zs):
        return zs[0] if len(zs) == 1 else z3.Concat(*zs)
    if not ys:
        return dict(name=name, verdict="violated", key="O3-compress/empty", s=0.0, what="empty result for " + name,
                    replay=dict(elements=list(texts)))
    A, B = smt.portable(cat(xs).sexpr()), smt.portable(cat(list(ys)).sexpr())
    q = "(str.in_re s (re.union (re.diff %s %s) (re.diff %s %s)))" % (A, B, B, A)
    r = smt.decide("(declare-const s String)", [q], ["s"], timeout_ms=10000, timeout_overrides=CVC5_FAST)
    if r["verdict"] == "unsat":
        return dict(name=name, verdict="discharged", s=r["s"], compressed=str(ys))
    if r["verdict"] == "sat":
        s = r["values"].get("s")
        inA = z3.is_true(z3.simplify(z3.InRe(z3.StringVal(s), cat(xs))))
        inB = z3.is_true(z3.simplify(z3.InRe(z3.StringVal(s), cat(list(ys)))))
        if inA != inB:
            kinds = "+".join(sorted({("star" if x.decl().kind() == z3.Z3_OP_RE_STAR else "plus" if x.decl().kind() == z3.Z3_OP_RE_PLUS else "atom") for x in xs}))
            return dict(name=name, verdict="violated", key="O3-compress/language-changed/%s/%d" % (kinds, len(xs)), s=r["s"],
                        what="compress(%s) = %s: %r is in one language only (original %s, compressed %s)" % (name, ys, s, inA, inB),
                        replay=dict(elements=list(texts), string=s))
        return dict(name=name, verdict="harness-error", s=r["s"], what="model %r did not reproduce" % (s,))
    return dict(name=name, verdict="inconclusive", reason=str(r["answers"]), s=r["s"])


def main(tier, only):
    import multiprocessing as mp
    run = common.Run("C15", tier, "other", [common.src_range("src/isla/z3_helpers.py", f) for f in
                     ["numeric_intervals_from_regex", "numeric_intervals_from_regex_range", "numeric_intervals_from_seq_to_re",
                      "numeric_intervals_from_union", "numeric_intervals_from_zeroes", "numeric_intervals_from_full_range",
                      "numeric_intervals_from_concat", "compress_concatenation_elements"]] +
                     [common.src_range("src/isla/helpers.py", "merge_intervals")])
    depth, cap = (8, 8) if tier == "quick" else (10, 120)
    regexes = enumerate_regexes(docstring_grammar(), depth, cap)
    if len(regexes) < 50:
        raise common.HarnessError("regex family too small: %d" % len(regexes))
    # always include the documented doctest shapes and a few hand-written boundary shapes
    extra = ['z3.Concat(z3.Range("1", "9"), z3.Plus(z3.Range("0", "9")))', 'z3.Concat(z3.Range("0", "9"), z3.Plus(z3.Range("0", "9")))',
             'z3.Concat(z3.Range("0", "9"), z3.Star(z3.Range("0", "9")))', 'z3.Concat(z3.Plus(z3.Range("0", "9")), z3.Range("0", "9"))',
             'z3.Concat(z3.Range("1", "9"), z3.Range("0", "9"), z3.Range("0", "9"), z3.Star(z3.Range("0", "9")))',
             'z3.Concat(z3.Range("1", "9"), z3.Range("0", "9"), z3.Star(z3.Range("0", "9")))',
             'z3.Concat(z3.Re("-"), z3.Star(z3.Re("0")), z3.Range("1", "9"), z3.Star(z3.Range("0", "9")))',
             'z3.Concat(z3.Option(z3.Re("-")), z3.Plus(z3.Re("0")), z3.Range("3", "9"))',
             'z3.Concat(z3.Union(z3.Re("+"), z3.Re("-"), z3.Re("0")), z3.Range("2", "9"))',
             'z3.Union(z3.Range("0", "3"), z3.Concat(z3.Re("-"), z3.Range("1", "9")))',
             'z3.Concat(z3.Re("0"), z3.Re("0"), z3.Range("0", "9"), z3.Plus(z3.Range("0", "9")))']
    regexes = extra + history_family() + [r for r in regexes if r not in extra]
    elems = [b for b in ELEM_BASES] + ["z3.Star(%s)" % b for b in ELEM_BASES] + ["z3.Plus(%s)" % b for b in ELEM_BASES]
    maxlen = 3 if tier == "quick" else 4
    if tier == "quick":
        two = [e for e in elems if ELEM_BASES[0] in e or ELEM_BASES[1] in e]
        lists = [c for n in range(1, 3) for c in itertools.product(elems, repeat=n)]
        lists += list(itertools.product(two, repeat=3))
    else:
        lists = [c for n in range(1, maxlen + 1) for c in itertools.product(elems, repeat=n)]
    if tier != "quick":
        # length 5 over one base only (r, r*, r+ patterns are what the grouping logic distinguishes)
        one = [ELEM_BASES[0], "z3.Star(%s)" % ELEM_BASES[0], "z3.Plus(%s)" % ELEM_BASES[0], ELEM_BASES[2]]
        lists += list(itertools.product(one, repeat=5))
    ctx = mp.get_context("fork")
    with ctx.Pool(common.NCPU) as pool:
        rres = pool.map(regex_worker, regexes, chunksize=8)
        cres = pool.map(compress_worker, lists, chunksize=16)
    n_some = n_nothing = n_skipped = n_nonnum = 0
    samples = []
    for o in rres:
        if o.get("skipped"):
            n_skipped += 1
            continue
        if o.get("nothing"):
            n_nothing += 1
            continue
        if "non_numeral" in o:
            n_nonnum += 1
            continue
        n_some += 1
        for r in o["results"]:
            name = "%s :: %s" % (r["name"], o["regex"])
            _rec(run, name, r)
        if len(samples) < 10:
            samples.append(dict(regex=o["regex"], intervals=o.get("intervals"), verdicts={r["name"]: r["verdict"] for r in o["results"]}))
    for r in cres:
        _rec(run, "O3-compress :: " + r["name"], r)
    # O4 merge_intervals (CrossHair)
    res = xh.check_many("C15", os.path.join(os.path.dirname(__file__), "harness", "h_c15.py"),
                        [dict(tag="", env={}, only=None, timeout=120 if tier == "quick" else 600)])
    xh.record(run, res, "O4-", lambda r: ("O4-merge_intervals", "merge_intervals(%s): %s" % (r["args"], r["replay"])))
    # vacuity: a wrong interval list must be refuted
    guard = _guard()
    if guard:
        run.harness_error(guard)
    run.extra.update(regexes_total=len(regexes), regexes_with_intervals=n_some, regexes_returning_Nothing=n_nothing,
                     regexes_skipped_unordered_range=n_skipped, regexes_matching_non_numerals_outside_precondition=n_nonnum, concat_lists=len(lists))
    run.bounds = dict(regex_family="derivations of the docstring BNF up to depth %d (cap %d per nonterminal and depth), digits %s" % (depth, cap, DIGITS),
                      strings="ALL strings, unbounded length (regular-language emptiness)", concat_lists="all lists of length <= %d over %d elements" % (maxlen, len(elems)),
                      merge_intervals="<= 3 intervals, symbolic integer endpoints")
    run.engines = dict(smt="z3 5.1.0 + cvc5 1.0.3 (must agree)", crosshair="crosshair-tool 0.0.110", replay="z3 4.11.2 ground membership")
    run.trusted = ["NumLang/Canon regex builders in checks/c15.py (digit-DP range regexes)", "integer value of a numeral = Python int()"]
    run.assumptions = ["precondition: L(R) contains only numerals [+-]?[0-9]+ (decided per regex by the solver; the docstring BNF also derives nested-sign shapes such as 0+ ++ (- ++ [0-9]) whose strings have no integer value)",
                       "+/-sys.maxsize interval bounds mean unbounded (documented)", "ranges are ordered (documented precondition)",
                       "regexes for which the function returns Nothing carry no obligation (documented: unsupported construction)"]
    run.outside = ["regexes outside the documented BNF", "derivations deeper than the bound or dropped by the cap"]
    return run.finish(
        "Every regex R of the family is built as a real z3.ReRef and passed to the real numeric_intervals_from_regex; the returned "
        "intervals I are turned into the regular language NumLang(I) of all renderings of their integers and the solver decides "
        "L(R) subseteq NumLang(I) (soundness) and, via Canon(I), that every integer of I has a rendering in L(R) (completeness) - "
        "for all strings. compress_concatenation_elements is checked by language equivalence; merge_intervals by CrossHair.",
        samples=samples)


def _rec(run, name, r):
    v = r["verdict"]
    if v == "discharged":
        run.ok(name, "z3-5.1.0+cvc5", solver_s=r.get("s", 0.0))
    elif v == "inconclusive":
        run.inconclusive(name, "z3-5.1.0+cvc5", r.get("reason", ""), solver_s=r.get("s", 0.0))
    elif v == "harness-error":
        run.harness_error("%s: %s" % (name, r.get("what")))
    else:
        run.disagreements_checked += 1
        run.violation(name, r["key"], "z3-5.1.0+cvc5+replay", r["what"], dict(kind="c15", **(r.get("replay") or {})), solver_s=r.get("s", 0.0))


def _guard() -> Optional[str]:
    """Seeded wrong intervals must come back sat in both obligations."""
    Rs = '(re.range "1" "9")'
    r = smt.decide("(declare-const s String)", ["(str.in_re s (re.inter %s (re.comp %s)))" % (Rs, numlang([(1, 8)]))], ["s"])
    if r["verdict"] != "sat":
        return "vacuity guard (soundness) failed: %s" % r["answers"]
    pos, _ = canon([(1, 10)])
    asserts = ["(str.in_re c %s)" % pos] + ['(not (str.in_re (str.++ "%s" c) %s))' % (p, Rs) for p in ["", "0", "+"]]
    r = smt.decide("(declare-const c String)", asserts, ["c"])
    if r["verdict"] != "sat" or r["values"].get("c") != "10":
        return "vacuity guard (completeness) failed: %s %s" % (r["answers"], r["values"])
    # NumLang self-test against Python on concrete strings
    import z3
    for I in ([(0, 0)], [(-9, -2), (2, 9)], [(10, INF)], [(-INF, -10)], [(-INF, INF)], [(3, 105)], [(-120, 7)], [(0, 9), (11, 11)]):
        nl = numlang(I)
        for s in ["0", "00", "-0", "+0", "7", "-7", "007", "+9", "10", "-10", "011", "11", "12", "105", "106", "-120", "-121",
                  "99", "100", "1000", "-00100", "", "+", "-", "1a", "--1", "3", "2", "-2", "-1", "1"]:
            r = smt.session("z3new").query("", ["(%s (str.in_re %s %s))" % ("not" if False else "and true", smt.smt_string(s), nl)])
            want = value_of(s) is not None and in_intervals(value_of(s), I)
            got = r["result"] == "sat"
            if got != want:
                return "NumLang self-test failed: I=%s s=%r expected %s solver %s" % (I, s, want, r["result"])
    return None


def replay(d):
    import vlib
    vlib.import_isla()
    import z3
    rp = d["replay"]
    if "elements" in rp:
        r = compress_worker(tuple(rp["elements"]))
        bad = r["verdict"] == "violated"
        print("replay C15 compress %s -> %s" % (rp["elements"], r.get("what") if bad else "holds"))
        return 1 if bad else 0
    if rp.get("kind") == "crosshair":
        return xh.replay_file(d)
    o = regex_worker(rp["regex"])
    bad = [r for r in o.get("results", []) if r["verdict"] == "violated"]
    print("replay C15 %s -> %s" % (rp["regex"], bad[0]["what"] if bad else "holds"))
    return 1 if bad else 0
