"""C16 — derivation-tree operations keep paths, strings, openness and identity consistent (CrossHair, [decoder])."""
import os
import sys

import common
import xh

HARNESS = os.path.join(os.path.dirname(__file__), "harness", "h_c16.py")


def keyfn(r):
    g = r["env"].get("VERIF_G", "0")
    err = (r["replay"].get("err") or "")
    if r["name"].startswith("codec"):
        return ("trie/" + r["name"], "%s(%s): %s" % (r["name"], r["args"], r["replay"]))
    if "trie keys differ" in err or "sub-trie" in err or "trie[" in err:
        cls = "trie"
    elif "structurally" in err or "structural hash" in err:
        cls = "structural-equality"
    elif "is_open" in err:
        cls = "openness"
    elif "find_node" in err or "get_subtree" in err or "paths()" in err or "duplicate node ids" in err:
        cls = "lookup"
    elif "replace_path" in err or "substitute" in err or "expand_one_step" in err or "mutated" in err:
        cls = "operation"
    elif "str " in err or "to_string" in err:
        cls = "string"
    else:
        cls = "other"
    wide = "wide-node" if g == "1" else "g" + g
    return ("%s/%s" % (cls, wide), "tree ops on choices %s: %s" % (r["args"], err[:400]))


def main(tier, only):
    run = common.Run("C16", tier, "other", [common.src_range("src/isla/derivation_tree.py", "DerivationTree." + f) for f in
                     ["__init__", "is_open", "get_subtree", "is_valid_path", "paths", "trie", "find_node", "replace_path", "substitute",
                      "expand_one_step", "structural_hash", "structurally_equal", "compute_hash_iteratively", "to_string", "leaves", "open_leaves"]] +
                     [common.src_range("src/isla/trie.py", f) for f in ["SubtreesTrie", "path_to_trie_key", "trie_key_to_path"]])
    cfgs = []
    if tier == "quick":
        plan = [(0, 6, 1, 150), (0, 4, 2, 150)]
        wide_L = 2
    else:
        plan = [(0, 8, 1, 2400), (0, 5, 2, 2400)]
        wide_L = 4
    # <start> has 1 alternative (+open), <s> 2 (+open), <a> 2 (+open): partition on the first three choices
    prefixes = ["0,0,0", "0,0,1", "0,0,2", "0,1,0", "0,1,1", "0,1,2"]
    for g, L, depth, to in plan:
        for pf in prefixes:
            cfgs.append(dict(tag="g%d.L%d.d%d.prefix%s" % (g, L, depth, pf.replace(",", "")),
                             env={"VERIF_G": str(g), "VERIF_L": str(L), "VERIF_DEPTH": str(depth), "VERIF_PREFIX": pf},
                             only=["ops"], timeout=to))
        # every valid vector of length >= 3 starts with one of the prefixes; the rest are the vectors of length <= 2
        cfgs.append(dict(tag="g%d.L2.d%d.short" % (g, depth),
                         env={"VERIF_G": str(g), "VERIF_L": "2", "VERIF_DEPTH": str(depth)}, only=["ops"], timeout=to))
    cfgs.append(dict(tag="wide40.L%d" % wide_L, env={"VERIF_G": "1", "VERIF_L": str(wide_L), "VERIF_DEPTH": "1", "VERIF_WIDE": "40"},
                     only=["ops"], timeout=plan[0][3]))
    cfgs.append(dict(tag="wide27.L%d" % wide_L, env={"VERIF_G": "1", "VERIF_L": str(wide_L), "VERIF_DEPTH": "1", "VERIF_WIDE": "27"},
                     only=["ops"], timeout=plan[0][3]))
    cfgs.append(dict(tag="codec", env={"VERIF_NP": "3" if tier == "quick" else "5"}, only=["codec_roundtrip", "codec_alphabet"],
                     timeout=plan[0][3]))
    run.bounds = dict(codec="paths of length <= %s, child indices unbounded (symbolic ints)" % ("3" if tier == "quick" else "5"), trees="all (open or closed) trees of the statement grammar reachable with <= %d pre-order choices" % plan[0][1],
                      operations="every replace_path (all paths x 4 replacement variants), substitute of every node, every expand_one_step result; "
                                 "sequences of length %d for trees with <= %d choices" % (plan[1][2], plan[1][1]),
                      wide="a node with 40 children and one with 27 children")
    run.engines = dict(crosshair="crosshair-tool 0.0.110 on z3 4.11.2")
    run.trusted = ["reference traversal/struct_eq/tree_string in the harness"]
    run.assumptions = ["[decoder]: the solver enumerates all choice vectors within the bound; the tree operations run natively on the decoded tree"]
    run.outside = ["deeper/larger trees, longer operation sequences, k_paths caches (see C17)"]
    res = xh.check_many("C16", HARNESS, cfgs, twin_timeout=90)
    xh.record(run, res, "", keyfn)
    return run.finish(
        "Every tree decodable from a bounded symbolic choice vector is put through every single public tree operation (and, for smaller "
        "trees, every pair of operations); after each step string, openness, paths()/get_subtree/find_node/trie()/sub-tries, leaves, "
        "lengths, structural equality vs structural hash and the 'only the subtree at the path changes' law are checked against an "
        "independent traversal.")


def replay(d):
    return xh.replay_file(d)
