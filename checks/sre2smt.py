"""SRE2SMT: a Python-`re` pattern string -> SMT RegLan (z3 python term) for the language that
`re.<fn>(pattern, s)` accepts.  The pattern is parsed with CPython's own re._parser.

Modelled: literals, `.` (no DOTALL: excludes \\n), classes with ranges/negation, branches, groups,
greedy/lazy repeats (same language), top-level anchors ^ \\A $ \\Z in first/last position, and the
entry points match / fullmatch.  `$` accepts at the end or before one trailing newline.
Anything else raises Unsupported (obligation inconclusive).
"""
from __future__ import annotations

import re
try:
    import re._parser as sre_parse
    import re._constants as sre_c
except ImportError:  # pragma: no cover
    import sre_parse
    import sre_constants as sre_c

import z3


class Unsupported(Exception):
    pass


RS = z3.ReSort(z3.StringSort())
ALLCHAR = z3.AllChar(RS)
EPS = z3.Re("")
NL = z3.Re("\n")


def _cat(xs):
    xs = list(xs)
    if not xs:
        return EPS
    if len(xs) == 1:
        return xs[0]
    return z3.Concat(*xs)


def _union(xs):
    xs = list(xs)
    if not xs:
        return z3.Empty(RS)
    if len(xs) == 1:
        return xs[0]
    return z3.Union(*xs)


def _diff(a, b):
    return z3.Intersect(a, z3.Complement(b))


def _char(c: int):
    return z3.Re(chr(c))


def _in(items):
    neg = False
    parts = []
    for op, av in items:
        if op == sre_c.NEGATE:
            neg = True
        elif op == sre_c.LITERAL:
            parts.append(_char(av))
        elif op == sre_c.RANGE:
            lo, hi = av
            parts.append(z3.Range(chr(lo), chr(hi)))
        else:
            raise Unsupported("class item %s" % (op,))
    u = _union(parts)
    return _diff(ALLCHAR, u) if neg else u


def _loop(r, lo, hi):
    if hi == sre_c.MAXREPEAT:
        if lo == 0:
            return z3.Star(r)
        if lo == 1:
            return z3.Plus(r)
        return z3.Concat(z3.Loop(r, lo, lo), z3.Star(r))
    if hi == 0:
        return EPS
    if lo == 0 and hi == 1:
        return z3.Option(r)
    return z3.Loop(r, lo, hi)


def _seq(items, dotall=False):
    out = []
    for op, av in items:
        if op == sre_c.LITERAL:
            out.append(_char(av))
        elif op == sre_c.NOT_LITERAL:
            out.append(_diff(ALLCHAR, _char(av)))
        elif op == sre_c.ANY:
            out.append(ALLCHAR if dotall else _diff(ALLCHAR, NL))
        elif op == sre_c.IN:
            out.append(_in(av))
        elif op == sre_c.BRANCH:
            out.append(_union(_seq(list(p), dotall) for p in av[1]))
        elif op == sre_c.SUBPATTERN:
            group, add_flags, del_flags, p = av
            if (add_flags | del_flags) & ~re.DOTALL:
                raise Unsupported("inline flags")
            sub_dotall = True if add_flags & re.DOTALL else False if del_flags & re.DOTALL else dotall
            out.append(_seq(list(p), sub_dotall))
        elif op in (sre_c.MAX_REPEAT, sre_c.MIN_REPEAT):
            lo, hi, p = av
            out.append(_loop(_seq(list(p), dotall), lo, hi))
        else:
            raise Unsupported("sre op %s" % (op,))
    return _cat(out)


def language(pattern: str, fn: str = "match"):
    """z3 regex for { s | re.<fn>(pattern, s) is not None }.  May raise re.error (the real code would too)."""
    parsed = sre_parse.parse(pattern)
    if parsed.state.flags & ~re.UNICODE:
        raise Unsupported("flags")
    items = list(parsed)
    end = None
    while items and items[0][0] == sre_c.AT and items[0][1] in (sre_c.AT_BEGINNING, sre_c.AT_BEGINNING_STRING):
        items = items[1:]   # match/fullmatch start at position 0 anyway
    if items and items[-1][0] == sre_c.AT:
        if items[-1][1] == sre_c.AT_END:
            end = "$"
        elif items[-1][1] == sre_c.AT_END_STRING:
            end = "Z"
        else:
            raise Unsupported("anchor %s" % (items[-1][1],))
        items = items[:-1]
    if any(op == sre_c.AT for op, _ in items):
        raise Unsupported("inner anchor")
    body = _seq(items)
    if fn == "fullmatch":
        return body
    if fn == "match":
        if end is None:
            return z3.Concat(body, z3.Full(RS))
        if end == "$":
            return z3.Union(body, z3.Concat(body, NL))
        return body
    raise Unsupported("re." + fn)


def selftest():
    """Differential test of the translator against CPython's re on concrete strings (z3 4.11.2 ground)."""
    pats = [r"(?s:.*?)x", r"(?s:.)(.)", r"a", r"ab{2,2}", r"(ab){2,3}", r"[^a-c]x", r".", r"(a|bc)*?d", r"((a)|(b))", r"\.\*\]", r"[+--]",
            r"a?b+", r"[a\]]", r"\n", r"é", r"(a)?", r"[^\n]"]
    strs = ["", "a", "ab", "abb", "abab", "ababab", "dx", "\n", "a\n", "bcd", "d", ".*]", ",", "é", "]", "b", "x", "ax", "\nx", "\n\n", "x\n"]
    n = 0
    for fn in ("match", "fullmatch"):
        for p in pats:
            for wrap in (p, "^" + p + "$", p + r"\Z"):
                lang = language(wrap, fn)
                for s in strs:
                    real = getattr(re, fn)(wrap, s) is not None
                    enc = z3.simplify(z3.InRe(z3.StringVal(s), lang))
                    if not (z3.is_true(enc) or z3.is_false(enc)):
                        sol = z3.Solver()
                        sol.add(z3.InRe(z3.StringVal(s), lang))
                        enc_b = str(sol.check()) == "sat"
                    else:
                        enc_b = z3.is_true(enc)
                    if enc_b != real:
                        raise AssertionError("SRE2SMT self-test: re.%s(%r, %r) = %s but encoding says %s" % (fn, wrap, s, real, enc_b))
                    n += 1
    return n
