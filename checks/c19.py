"""C19 — the isla command line honours its exit-code and output contract (CrossHair, [decoder], real CLI in-process)."""
import os

import common
import xh

HARNESS = os.path.join(os.path.dirname(__file__), "harness", "h_c19.py")


def keyfn(r):
    err = r["replay"].get("err") or ""
    if "uncaught exception" in err:
        cls = "traceback/" + err.split("TRACEBACK ")[-1].split(":")[0]
    elif "exited with" in err:
        got = err.split("exited with ")[1].split(",")[0].split(";")[0].split(" ")[0]
        want = err.split("expected ")[1].split(";")[0].split(" ")[0] if "expected " in err else "0-or-1"
        cls = "exit-code/%s-instead-of-%s" % (got, want)
    elif "does not satisfy the constraint" in err or "must reject" in err or "changed an already valid input" in err:
        cls = "generated-output-invalid"
    elif "rejects" in err:
        cls = "parse-output-rejected-by-check"
    elif "without an error message" in err:
        cls = "no-error-message"
    else:
        cls = "other"
    return ("cli/" + cls, err[:500])


def main(tier, only):
    run = common.Run("C19", tier, "other", [common.src_range("src/isla/cli.py", f) for f in
                     ["main", "check", "find", "parse", "do_check", "read_files", "ensure_grammar_present", "ensure_constraint_present",
                      "parse_constraint", "parse_grammar", "get_input_string", "derivation_tree_to_json"]])
    to = 300 if tier == "quick" else 1800
    wd = common.workdir("C19")
    cfgs = []
    extra = {"VERIF_C2SET": "0,3,7", "VERIF_INPSET": "0,1,2,4,5,6,7,9,10,11,14"} if tier == "quick" else {}
    for cmd in range(3):
        for gsrc in range(4):
            for c1file in range(2):
                ex = dict(extra)
                if tier == "quick" and gsrc >= 2:
                    ex["VERIF_INPSET"] = "0,5,11"      # malformed / missing grammar: the answer does not depend on the input
                cfgs.append(dict(tag="cmd%d.g%d.f%d" % (cmd, gsrc, c1file),
                                 env=dict(ex, VERIF_FIX="0=%d,1=%d,3=%d" % (cmd, gsrc, c1file), VERIF_WORK=wd), only=["cli"], timeout=to))
    # solve / repair / mutate: they run the solver loop (internal wall-clock timeouts)
    for cmd in range(3):
        for gsrc in range(4):
            if tier == "quick" and gsrc == 1:
                continue
            cfgs.append(dict(tag="gen%d.g%d" % (cmd, gsrc), env={"VERIF_GEN_FIX": "0=%d,1=%d%s" % (cmd, gsrc, ",3=0" if tier == "quick" else ""), "VERIF_WORK": wd,
                                                                 "VERIF_GEN_INPUTS": "0,3,7" if tier == "quick" else "0,2,3,5,7,11"},
                             only=["cli_gen"], timeout=to, timing_dependent=True))
    if tier == "quick":
        run.extra["quick_tier_restriction"] = "second constraint slot restricted to {none, syntax error, extension semantic predicate}; 11 of the 15 inputs (3 when the grammar is malformed or missing)"
    run.bounds = dict(scenarios="3 commands (check, parse, find) x 4 grammar sources (file, --grammar, malformed file, missing) x 9x2 x 9x2 constraint slots "
                                "(none / 3 valid / syntax error / unknown nonterminal / unknown predicate / semantic and structural predicate from a Python extension file; -c or .isla file) x 15 inputs (members, non-members, empty file, "
                                "newline only, trailing newline, JSON tree) x (file | --input-string)")
    run.engines = dict(crosshair="crosshair-tool 0.0.110 on z3 4.11.2")
    run.trusted = ["expected exit code computed from the documented contract with checks/refsem.py and the Earley parser for membership"]
    run.assumptions = ["[decoder]: the solver enumerates the scenario vectors; isla.cli.main runs natively in-process with captured stdout/stderr",
                       "all given constraints are combined by conjunction (property text)"]
    run.bounds["generation_commands"] = ("solve (-n 3 -t 10), repair and mutate (-t 5) x grammar sources x 9 constraint slots x -c / .isla file x 3 -> 6 inputs x file / --input-string: "
                                         "exit 2 / 65 as above, otherwise 0 or 1, never a traceback; every printed solution / repaired / mutated input satisfies the constraint (oracle and `isla check`); "
                                         "a non-member input gives 1; repair leaves a valid input unchanged")
    run.outside = ["fuzz/create commands, longer solution sequences of solve (see C01/C02)",
                   "argparse itself, other option combinations, real file-system errors"]
    res = xh.check_many("C19", HARNESS, cfgs, twin_timeout=120)
    xh.record(run, res, "", keyfn)
    return run.finish(
        "Every command line of the bounded scenario family is run through the real isla.cli.main: exit 0 iff the input is in the grammar and satisfies all "
        "given constraints (reference semantics), 1 otherwise; malformed grammar/constraint -> 65 with a message; missing grammar/constraint/input -> 2; "
        "no uncaught exception for any input file (incl. empty); a tree printed by `isla parse` is accepted by `isla check`.")


def replay(d):
    return xh.replay_file(d)
