"""C18 — check, parse, repair agree with the constraint and with each other (CrossHair, [decoder], long-lived solver objects)."""
import os

import common
import xh

HARNESS = os.path.join(os.path.dirname(__file__), "harness", "h_c18.py")


def keyfn(r):
    err = r["replay"].get("err") or ""
    if "raised" in err:
        cls = "raises"
    elif "after parse(skip_check=True)" in err:
        cls = "state-carried-between-calls"
    elif "check(tree)" in err:
        cls = "check-tree"
    elif "check(str)" in err:
        cls = "check-str"
    elif "mutate()" in err:
        cls = "mutate"
    elif "repair" in err:
        cls = "repair"
    elif "parse" in err:
        cls = "parse"
    else:
        cls = "other"
    return ("%s/%s" % (r["name"], cls), err[:500])


def main(tier, only):
    run = common.Run("C18", tier, "other", [common.src_range("src/isla/solver.py", "ISLaSolver." + f) for f in ["check", "parse", "repair", "mutate"]])
    nd, parts, to = (3, 8, 300) if tier == "quick" else (5, 16, 3000)
    stmts = "2" if tier == "quick" else "3"
    cfgs = [dict(tag="part%d" % i, env={"VERIF_ND": str(nd), "VERIF_PART": "%d/%d" % (i, parts), "VERIF_STMTS": stmts}, only=["members"], timeout=to, timing_dependent=True)
            for i in range(parts)]
    cfgs.append(dict(tag="", env={"VERIF_STMTS": stmts}, only=["non_members"], timeout=to))
    run.bounds = dict(inputs="all closed trees of the assignment grammar with <= %s statements whose code has %d base-8 digits, 9 non-member strings" % (stmts, nd),
                      constraints="10 constraints (universal, existential, negated universal, match expressions, before, count, str.contains, true)",
                      sequences="check(tree), check(str), parse(skip_check=True), check(str), parse(str), check(parsed tree), repair(str), repair(tree), mutate(tree) on ONE solver object per constraint")
    run.engines = dict(crosshair="crosshair-tool 0.0.110 on z3 4.11.2")
    run.trusted = ["reference semantics checks/refsem.py"]
    run.assumptions = ["[decoder]; the grammar is unambiguous, so check(tree) and check(str) must agree",
                       "repair of a violating input may return nothing; a returned tree must be a closed tree of the grammar that satisfies the constraint; mutate (1-2 mutations) "
                       "must return such a tree for every input; both run the solver loop with internal wall-clock timeouts, calls longer than 20 s are abandoned"]
    run.outside = ["other grammars and constraints, more mutations per call"]
    res = xh.check_many("C18", HARNESS, cfgs, twin_timeout=120)
    xh.record(run, res, "", keyfn)
    return run.finish(
        "For every bounded input and constraint, on one long-lived solver object: check(tree) = check(str) = reference verdict; parse raises SyntaxError exactly "
        "for non-members and SemanticError exactly for violating members (never with skip_check); verdicts do not change after earlier calls; repair returns a "
        "valid input unchanged and otherwise nothing or a valid input; every tree returned by mutate is valid.")


def replay(d):
    return xh.replay_file(d)
