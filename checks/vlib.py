"""Small trusted helpers shared by harness modules (run inside the isla process).

Importing this module imports isla.  isla/language.py monkey-patches
z3.ExprRef.__eq__ with a structural comparison, which breaks CrossHair (it
builds its own constraints with ==).  `import_isla()` saves the original
operator, imports isla and installs a dispatcher: frames of crosshair/z3 modules
get z3's own operator, everybody else (isla) the structural one.
"""
from __future__ import annotations

import sys
import warnings

warnings.filterwarnings("ignore")

_installed = False

import contextlib

try:
    from crosshair.tracers import NoTracing as _NoTracing
except Exception:  # pragma: no cover
    _NoTracing = contextlib.nullcontext
try:
    from crosshair.auditwall import opened_auditwall as _opened_auditwall
except Exception:  # pragma: no cover
    _opened_auditwall = contextlib.nullcontext


def untraced(fn, *args, **kwargs):
    """[decoder] harnesses: once the symbolic input has been realised nothing symbolic reaches the code
    under test, so it is run natively (CrossHair's tracer off).  The solver's job is the exhaustive
    enumeration of the inputs (models of the precondition), not the interpretation of this call."""
    # (the audit wall is opened as well: harnesses that drive the CLI write scratch files)
    # ISLa's z3_solve changes GLOBAL z3 parameters (parallel.enable, smt.random_seed) after an `unknown`; CrossHair's own
    # solver lives in the same process and z3 context (observed: CrossHair dying with a Z3 parameter listing), so these two
    # calls are turned into no-ops while the code under test runs.
    import z3 as _z3
    orig = _z3.set_param

    def guarded(*a, **k):
        if a and a[0] in ("parallel.enable", "smt.random_seed"):
            return None
        return orig(*a, **k)
    _z3.set_param = guarded
    try:
        with _NoTracing(), _opened_auditwall(), _monitoring_off():
            return fn(*args, **kwargs)
    finally:
        _z3.set_param = orig


@contextlib.contextmanager
def _monitoring_off():
    """On Python >= 3.12 CrossHair traces through sys.monitoring INSTRUCTION events, which stay armed under NoTracing()
    (the callback returns early, but every bytecode instruction still calls into it: ~6x slowdown measured on the Earley
    parser).  While the code under test runs natively the events are switched off and re-armed afterwards."""
    mon = getattr(sys, "monitoring", None)
    tool = None
    if mon is not None:
        try:
            from crosshair.tracers import SYS_MONITORING_TOOL_ID as tool
            if mon.get_tool(tool) is None or not mon.get_events(tool):
                tool = None
        except Exception:
            tool = None
    if tool is None:
        yield
        return
    events = mon.get_events(tool)
    mon.set_events(tool, 0)
    try:
        yield
    finally:
        mon.set_events(tool, events)
        mon.restart_events()

try:  # only present in the CrossHair overlay; replay runs under plain /venv/bin/python
    from crosshair import deep_realize as realize, IgnoreAttempt
except Exception:  # pragma: no cover
    def realize(x):
        return x

    class IgnoreAttempt(BaseException):
        pass


def import_isla():
    global _installed
    if _installed:
        return
    import z3
    orig_eq = z3.ExprRef.__dict__["__eq__"]
    orig_ne = z3.ExprRef.__dict__["__ne__"]
    import isla.language  # noqa: F401  (patches __eq__)
    isla_eq = z3.ExprRef.__dict__["__eq__"]
    isla_ne = z3.ExprRef.__dict__.get("__ne__", orig_ne)

    def _from_crosshair() -> bool:
        f = sys._getframe(2)
        name = f.f_globals.get("__name__", "")
        return name.startswith("crosshair")

    def eq(self, other):
        if _from_crosshair():
            return orig_eq(self, other)
        return isla_eq(self, other)

    def ne(self, other):
        if _from_crosshair():
            return orig_ne(self, other)
        return isla_ne(self, other)

    z3.ExprRef.__eq__ = eq
    z3.ExprRef.__ne__ = ne
    _installed = True


# --------------------------------------------------------------------------
# Grammars used across the checks (concrete programs; the solver quantifies
# over everything else).

import string as _string

LANG_GRAMMAR = {
    "<start>": ["<stmt>"],
    "<stmt>": ["<assgn> ; <stmt>", "<assgn>"],
    "<assgn>": ["<var> := <rhs>"],
    "<rhs>": ["<var>", "<digit>"],
    "<var>": list(_string.ascii_lowercase),
    "<digit>": list(_string.digits),
}

# small variant (3 variables, 2 digits) for harnesses that fork on alternatives
LANG3_GRAMMAR = {
    "<start>": ["<stmt>"],
    "<stmt>": ["<assgn> ; <stmt>", "<assgn>"],
    "<assgn>": ["<var> := <rhs>"],
    "<rhs>": ["<var>", "<digit>"],
    "<var>": ["a", "b", "c"],
    "<digit>": ["0", "1"],
}

BLOCK_GRAMMAR = {
    "<start>": ["<block>"],
    "<block>": ["{<stmts>}"],
    "<stmts>": ["<stmt><stmts>", ""],
    "<stmt>": ["<block>", "<decl>", "<use>"],
    "<decl>": ["d"],
    "<use>": ["u"],
}

XMLISH_GRAMMAR = {
    "<start>": ["<tree>"],
    "<tree>": ["<<id>><inner></<id>>", "<<id>/>"],
    "<inner>": ["<tree><inner>", "<tree>", "<text>"],
    "<text>": ["x", "y"],
    "<id>": ["a", "b"],
}

NULLABLE_GRAMMAR = {
    "<start>": ["<a><b><c>"],
    "<a>": ["a", ""],
    "<b>": ["b<b>", ""],
    "<c>": ["<a>c", "<b>"],
}


def parse_tree(grammar, inp, start="<start>"):
    """DerivationTree of `inp` via the real Earley parser."""
    from isla.parser import EarleyParser
    from isla.derivation_tree import DerivationTree
    return DerivationTree.from_parse_tree(next(EarleyParser(grammar, start_symbol=start).parse(inp)))


def is_nonterminal(s: str) -> bool:
    return len(s) > 2 and s[0] == "<" and s[-1] == ">" and " " not in s


def split_expansion(exp: str):
    """'<a> := <b>' -> ['<a>', ' := ', '<b>'] (independent of isla's canonical())."""
    import re
    return [tok for tok in re.split(r"(<[^<> ]+>)", exp) if tok != ""]


def valid_tree(grammar, tree, allow_open: bool = True) -> bool:
    """Independent validator: every inner node's children spell one alternative of its label;
    terminal leaves have children == (); nonterminal leaves may be open (children None)."""
    stack = [tree]
    while stack:
        node = stack.pop()
        label, children = node.value, node.children
        if not is_nonterminal(label) or label not in grammar:
            if is_nonterminal(label) and label not in grammar:
                return False
            if children is None or len(children) != 0:
                return False
            continue
        if children is None:
            if not allow_open:
                return False
            continue
        labels = [c.value for c in children]
        if not labels:
            # the Earley parser renders an epsilon expansion as a nonterminal node with no children
            # (the fuzzer as a single "" child); both are derivation trees of an empty alternative
            if "" not in grammar[label]:
                return False
            continue
        ok = False
        for alt in grammar[label]:
            want = split_expansion(alt)
            if not want:
                want = [""]
            if labels == want:
                ok = True
                break
        if not ok:
            return False
        stack.extend(children)
    return True


def tree_string(tree) -> str:
    """Concatenation of terminal leaves (open leaves contribute their label, as to_string does)."""
    out = []

    def rec(n):
        if n.children is None:
            out.append(n.value)
        elif len(n.children) == 0:
            if not is_nonterminal(n.value):
                out.append(n.value)
        else:
            for c in n.children:
                rec(c)
    rec(tree)
    return "".join(out)


def all_paths(tree):
    res = []

    def rec(n, p):
        res.append(p)
        for i, c in enumerate(n.children or ()):
            rec(c, p + (i,))
    rec(tree, ())
    return res


def mk_tree(spec):
    """('<a>', [child specs]) / ('<a>', None) for an open leaf / 'x' for a terminal leaf."""
    from isla.derivation_tree import DerivationTree
    if isinstance(spec, str):
        return DerivationTree(spec, ())
    label, children = spec
    if children is None:
        return DerivationTree(label, None)
    return DerivationTree(label, tuple(mk_tree(c) for c in children))


def share_sibling_ids(tree):
    """The same tree in which sibling nodes with equal labels carry ONE id (ISLa does not require unique ids:
    DerivationTree.replace_path keeps the id of the node whose child is replaced, so an instantiated copy of a
    template and the template itself share an id).  Returns None if no two siblings have the same label."""
    from isla.derivation_tree import DerivationTree
    found = False

    def rec(n, forced_id):
        nonlocal found
        kids = n.children
        if kids is not None:
            first = {}
            new = []
            for c in kids:
                if is_nonterminal(c.value) and c.value in first:
                    found = True
                    new.append(rec(c, first[c.value]))
                else:
                    first.setdefault(c.value, c.id)
                    new.append(rec(c, c.id))
            kids = tuple(new)
        return DerivationTree(n.value, kids, id=forced_id)
    out = rec(tree, tree.id)
    return out if found else None


# --------------------------------------------------------------------------
# [decoder] support: a bounded vector of choice integers <-> a derivation tree of a fixed grammar

def canonical_grammar(grammar):
    return {n: [[t for t in split_expansion(a)] if a != "" else [""] for a in alts] for n, alts in grammar.items()}


def min_closing(grammar):
    """nonterminal -> index of an alternative on a smallest closed derivation (fixpoint on node counts)"""
    can = canonical_grammar(grammar)
    cost = {n: None for n in can}
    best = {n: 0 for n in can}
    changed = True
    while changed:
        changed = False
        for n, alts in can.items():
            for i, alt in enumerate(alts):
                c = 1
                ok = True
                for t in alt:
                    if t in can:
                        if cost[t] is None:
                            ok = False
                            break
                        c += cost[t]
                    else:
                        c += 1
                if ok and (cost[n] is None or c < cost[n]):
                    cost[n], best[n] = c, i
                    changed = True
    return best


def max_choice(grammar, allow_open: bool) -> int:
    return max(len(a) for a in grammar.values()) + (1 if allow_open else 0)


def decode_tree(grammar, start: str, choices, allow_open: bool, close_rest: bool = True, budget: int = 200):
    """Pre-order expansion of `start`: the i-th expanded nonterminal takes alternative choices[i];
    the value len(alternatives) means 'leave this leaf open' (only if allow_open).  A choice that is out
    of range for its node rejects the vector (IgnoreAttempt), so vectors and trees correspond 1:1.
    When the choices are used up the remaining nonterminals are left open (allow_open) or closed with a
    smallest expansion.  Returns a nested spec for mk_tree()."""
    can = canonical_grammar(grammar)
    best = min_closing(grammar)
    pos = 0
    count = 0

    def expand(label):
        nonlocal pos, count
        count += 1
        if count > budget:
            raise IgnoreAttempt()
        alts = can[label]
        if pos < len(choices):
            c = choices[pos]
            pos += 1
            if allow_open and c == len(alts):
                return (label, None)
            if not (0 <= c < len(alts)):
                raise IgnoreAttempt()
        else:
            if allow_open and not close_rest:
                return (label, None)
            c = best[label]
        return (label, [expand(t) if t in can else t for t in alts[c]])

    spec = expand(start)
    if pos < len(choices):
        raise IgnoreAttempt()   # unused choices: the same tree is reached by the shorter vector
    return spec
