"""Shared machinery: paths, overlay venv, evidence, known findings, exit codes.

Exit codes of every check: 0 = nothing violated (inconclusive obligations are
listed in evidence), 1 = replayed violation not listed in KNOWN_FINDINGS.txt,
2 = harness error (vacuity twin passed, translator self-test failed,
counterexample did not reproduce, solver binary missing).
"""
from __future__ import annotations

import fcntl
import json
import os
import shutil
import subprocess
import sys
import time
from typing import Any, Dict, List, Optional

VERIF = os.path.dirname(os.path.dirname(os.path.abspath(__file__)))
REPO = os.environ.get("VERIF_REPO", "/repo")
REPO_SRC = os.path.join(REPO, "src")
BASE_PY = "/venv/bin/python"
OVERLAY = os.path.join(VERIF, ".venv")
OVERLAY_PY = os.path.join(OVERLAY, "bin", "python")
WHEELS = "/opt/veriftools/wheels"
EVIDENCE_DIR = os.path.join(VERIF, "evidence")
KNOWN_FILE = os.path.join(VERIF, "KNOWN_FINDINGS.txt")
NCPU = int(os.environ.get("VERIF_JOBS", str(os.cpu_count() or 4)))
SEED = int(os.environ.get("VERIF_SEED", "0") or 0)

XH_DEPS = [
    "crosshair-tool", "typeshed_client", "typing_inspect", "mypy_extensions",
    "importlib_metadata", "zipp", "pygls", "lsprotocol", "attrs", "cattrs",
    "typing_extensions", "packaging",
]


class HarnessError(Exception):
    """The machinery itself is broken (exit code 2)."""


def ensure_overlay() -> str:
    """Create /verif/.venv (CrossHair on top of /venv's packages) if missing."""
    marker = os.path.join(OVERLAY, ".ok")
    if os.path.exists(marker):
        return OVERLAY_PY
    os.makedirs(EVIDENCE_DIR, exist_ok=True)
    lock = open(os.path.join(EVIDENCE_DIR, ".overlay.lock"), "w")
    fcntl.flock(lock, fcntl.LOCK_EX)
    try:
        if os.path.exists(marker):
            return OVERLAY_PY
        if os.path.exists(OVERLAY):
            shutil.rmtree(OVERLAY)
        subprocess.run([BASE_PY, "-m", "venv", OVERLAY], check=True)
        sp = subprocess.run(
            [OVERLAY_PY, "-c", "import sysconfig;print(sysconfig.get_paths()['purelib'])"],
            check=True, capture_output=True, text=True).stdout.strip()
        base_sp = subprocess.run(
            [BASE_PY, "-c", "import sysconfig;print(sysconfig.get_paths()['purelib'])"],
            check=True, capture_output=True, text=True).stdout.strip()
        with open(os.path.join(sp, "_venv_overlay.pth"), "w") as f:
            f.write("import site; site.addsitedir(%r)\n" % base_sp)
        env = dict(os.environ, PIP_NO_INDEX="1")
        r = subprocess.run(
            [OVERLAY_PY, "-m", "pip", "install", "-q", "--no-index", "--find-links",
             WHEELS, "--no-deps"] + XH_DEPS, env=env, capture_output=True, text=True)
        if r.returncode != 0:
            raise HarnessError("overlay pip install failed: " + r.stderr[-2000:])
        r = subprocess.run([OVERLAY_PY, "-W", "ignore", "-c", "import crosshair, isla, z3"],
                           capture_output=True, text=True)
        if r.returncode != 0:
            raise HarnessError("overlay import failed: " + r.stderr[-2000:])
        open(marker, "w").write("ok\n")
        return OVERLAY_PY
    finally:
        fcntl.flock(lock, fcntl.LOCK_UN)
        lock.close()


def workdir(pid: str) -> str:
    d = os.path.join(EVIDENCE_DIR, "work", pid)
    os.makedirs(d, exist_ok=True)
    return d


def replay_dir(pid: str) -> str:
    d = os.path.join(EVIDENCE_DIR, "replay", pid)
    os.makedirs(d, exist_ok=True)
    return d


# --------------------------------------------------------------------------
# Known findings

def load_known() -> Dict[str, Dict[str, str]]:
    """KNOWN_FINDINGS.txt -> {(property,key): description} for `known:` lines.

    Format:  known: property=C04 key=<key> :: <what fails>
             fixed: property=C04 <commit> key=<key> :: <what failed>
    `fixed:` lines suppress nothing and are ignored here.
    """
    out: Dict[str, Dict[str, str]] = {}
    if not os.path.exists(KNOWN_FILE):
        return out
    for line in open(KNOWN_FILE):
        line = line.strip()
        if not line.startswith("known:"):
            continue
        head, _, desc = line[len("known:"):].partition("::")
        fields = dict(tok.split("=", 1) for tok in head.split() if "=" in tok)
        out.setdefault(fields["property"], {})[fields["key"]] = desc.strip()
    return out


# --------------------------------------------------------------------------
# Evidence

DISCHARGED, VIOLATED, INCONCLUSIVE, KNOWN = "discharged", "violated", "inconclusive", "known-finding"


class Run:
    def __init__(self, pid: str, tier: str, level: str, functions: List[str]):
        self.pid, self.tier, self.level = pid, tier, level
        self.t0 = time.time()
        self.obligations: List[Dict[str, Any]] = []
        self.functions = functions
        self.assumptions: List[str] = []
        self.bounds: Dict[str, Any] = {}
        self.outside: List[str] = []
        self.trusted: List[str] = []
        self.engines: Dict[str, str] = {}
        self.harness_errors: List[str] = []
        self.known = load_known().get(pid, {})
        self.known_seen: Dict[str, str] = {}
        self.violations: List[Dict[str, Any]] = []
        self.extra: Dict[str, Any] = {}
        self.programs = 0
        self.disagreements_checked = 0
        # replay files of earlier runs of this tier are stale
        rd = replay_dir(pid)
        for f in os.listdir(rd):
            if f.startswith("%s_%s_" % (pid, tier)):
                os.unlink(os.path.join(rd, f))

    # -- recording -----------------------------------------------------
    def ok(self, name: str, engine: str, solver_s: float = 0.0, **detail):
        self.obligations.append(dict(name=name, verdict=DISCHARGED, engine=engine,
                                     solver_s=round(solver_s, 3), **detail))

    def inconclusive(self, name: str, engine: str, reason: str, solver_s: float = 0.0, **detail):
        self.obligations.append(dict(name=name, verdict=INCONCLUSIVE, engine=engine, reason=reason,
                                     solver_s=round(solver_s, 3), **detail))

    def harness_error(self, msg: str):
        self.harness_errors.append(msg)
        print("HARNESS-ERROR: property=%s %s" % (self.pid, msg), flush=True)

    def violation(self, name: str, key: str, engine: str, what: str, replay: Dict[str, Any],
                  solver_s: float = 0.0):
        """A counterexample that HAS ALREADY BEEN REPLAYED against the real code."""
        what = " ".join(str(what).split())[:600]
        if key in self.known:
            if key not in self.known_seen:
                self.known_seen[key] = what
                print("KNOWN-FINDING: property=%s key=%s %s" % (self.pid, key, what), flush=True)
            self.obligations.append(dict(name=name, verdict=KNOWN, engine=engine, key=key, what=what,
                                         solver_s=round(solver_s, 3)))
            return
        for v in self.violations:
            if v["key"] == key:   # same failure class already reported in this run
                v["more"] = v.get("more", 0) + 1
                self.obligations.append(dict(name=name, verdict=VIOLATED, engine=engine, key=key, what=what,
                                             replay=v["replay"], duplicate_of=v["name"], solver_s=round(solver_s, 3)))
                return
        n = len(self.violations)
        path = os.path.join(replay_dir(self.pid), "%s_%s_%d.json" % (self.pid, self.tier, n))
        with open(path, "w") as f:
            json.dump(dict(property=self.pid, obligation=name, key=key, what=what, replay=replay),
                      f, indent=1, default=str)
        self.violations.append(dict(name=name, key=key, what=what, replay=path))
        self.obligations.append(dict(name=name, verdict=VIOLATED, engine=engine, key=key, what=what,
                                     replay=path, solver_s=round(solver_s, 3)))
        print("VIOLATION property=%s replay=%s" % (self.pid, path), flush=True)
        print("  obligation=%s key=%s :: %s" % (name, key, what), flush=True)

    # -- finishing -----------------------------------------------------
    def finish(self, explanation: str, samples: Optional[List[Any]] = None) -> int:
        counts: Dict[str, int] = {}
        for o in self.obligations:
            counts[o["verdict"]] = counts.get(o["verdict"], 0) + 1
        solver_s = sum(o.get("solver_s", 0.0) for o in self.obligations)
        if samples is None:
            samples = self.obligations[:12]
        interesting = [o for o in self.obligations if o["verdict"] != DISCHARGED]
        cov: Dict[str, Any] = dict(
            explanation=explanation,
            obligations=len(self.obligations),
            discharged=counts.get(DISCHARGED, 0),
            violated=counts.get(VIOLATED, 0),
            inconclusive=counts.get(INCONCLUSIVE, 0),
            known_findings=counts.get(KNOWN, 0),
            evaluations=len(self.obligations),
            distinct_nontrivial=len({o["name"] for o in self.obligations}),
            rule="one obligation = one solver query (or one CrossHair condition) over all values of its "
                 "symbolic inputs inside the stated bounds; distinct by obligation name; every obligation "
                 "has a reachability twin or sat-witness so none is vacuous",
            samples=samples,
            not_discharged=interesting[:60],
            functions_encoded=self.functions,
            bounds=self.bounds,
            outside_the_claim=self.outside,
            trusted_base=self.trusted,
            engines=self.engines,
            solver_time_s=round(solver_s, 2),
            harness_errors=self.harness_errors,
            exhaustive=False,
        )
        if self.level == "translation_validation":
            cov["programs"] = self.programs
            cov["disagreements_checked"] = self.disagreements_checked
        cov.update(self.extra)
        ev = dict(property_id=self.pid, tier=self.tier, seed=SEED, level=self.level, coverage=cov,
                  assumptions=self.assumptions, wall_s=round(time.time() - self.t0, 2),
                  violations=len(self.violations))
        os.makedirs(EVIDENCE_DIR, exist_ok=True)
        with open(os.path.join(EVIDENCE_DIR, "%s.json" % self.pid), "w") as f:
            json.dump(ev, f, indent=1, default=str)
        print("%s %s: %d obligations, %s, solver %.1fs, wall %.1fs" % (
            self.pid, self.tier, len(self.obligations),
            ", ".join("%s=%d" % kv for kv in sorted(counts.items())), solver_s,
            time.time() - self.t0), flush=True)
        for k in self.known:
            if k not in self.known_seen:
                print("NOTE: known finding not re-found in this run: property=%s key=%s" % (self.pid, k))
        if self.harness_errors:
            return 2
        if self.violations:
            return 1
        return 0


def src_range(relpath: str, name: str) -> str:
    """'src/isla/x.py:12-40 name' resolved from the current source with ast."""
    import ast
    path = os.path.join(REPO, relpath)
    try:
        tree = ast.parse(open(path).read())
    except Exception as e:  # pragma: no cover
        return "%s:? %s (%s)" % (relpath, name, e)
    parts = name.split(".")
    nodes = tree.body
    found = None
    for part in parts:
        found = None
        for n in nodes:
            if isinstance(n, (ast.FunctionDef, ast.ClassDef, ast.AsyncFunctionDef)) and n.name == part:
                found = n
                break
        if found is None:
            return "%s:? %s" % (relpath, name)
        nodes = found.body
    return "%s:%d-%d %s" % (relpath, found.lineno, found.end_lineno, name)
