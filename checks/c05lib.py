"""Shared pieces of the C05/C02 checks: operator instances, handler lookup, ground oracle."""
from __future__ import annotations

import ast
import itertools
import os
import warnings
from typing import Any, Dict, List, Optional, Tuple

warnings.filterwarnings("ignore")

import z3

import common
from isla import z3_helpers as ZH
from isla.z3_helpers import z3_eq
from returns.maybe import Nothing, Some

SRC = os.path.join(common.REPO_SRC, "isla", "z3_helpers.py")

# ---------------------------------------------------------------- source model


class Source:
    def __init__(self):
        self.tree = ast.parse(open(SRC).read())
        self.funcs = {n.name: n for n in self.tree.body if isinstance(n, ast.FunctionDef)}
        self.handler_names = self._handler_list()

    def _handler_list(self) -> List[str]:
        f = self.funcs["evaluate_z3_expression"]
        best: List[str] = []
        for n in ast.walk(f):
            if isinstance(n, ast.List) and n.elts and all(isinstance(e, ast.Name) for e in n.elts):
                names = [e.id for e in n.elts]
                if len(names) > len(best):
                    best = names
        return [n for n in best if n.startswith("evaluate_z3_")]

    def constructor_of(self, handler: str) -> Optional[ast.AST]:
        """First argument of the construct_result(...) call inside the handler."""
        f = self.funcs[handler]
        nested = {n.name: n for n in ast.walk(f) if isinstance(n, ast.FunctionDef) and n is not f}
        for n in ast.walk(f):
            if isinstance(n, ast.Call) and getattr(n.func, "id", None) == "construct_result" and n.args:
                c = n.args[0]
                if isinstance(c, ast.Name) and c.id in nested:
                    return nested[c.id]
                return c
        return None

    def lineno(self, handler: str) -> str:
        f = self.funcs[handler]
        return "src/isla/z3_helpers.py:%d-%d %s" % (f.lineno, f.end_lineno, handler)


# ---------------------------------------------------------------- operator instances

INT_VARS = {n: z3.Int(n) for n in "abc"}
STR_VARS = {n: z3.String(n) for n in "xyz"}
BOOL_VARS = {n: z3.Bool(n) for n in "pqr"}
DECLS = {**INT_VARS, **STR_VARS, **BOOL_VARS}


def parse_term(text: str) -> z3.ExprRef:
    """Build the term the way ISLa's parser does: z3.parse_smt2_string on the s-expression.
    Non-Boolean terms are wrapped in an equation and unwrapped."""
    try:
        return z3.parse_smt2_string("(assert %s)" % text, decls=DECLS)[0]
    except z3.Z3Exception:
        for probe in ("(= %s 0)", '(= %s "")', "(str.in_re \"\" %s)"):
            try:
                f = z3.parse_smt2_string("(assert %s)" % (probe % text), decls=DECLS)[0]
            except z3.Z3Exception:
                continue
            return f.children()[1] if probe.startswith("(str.in_re") else f.children()[0]
        raise


def kind_of(e: z3.ExprRef) -> str:
    s = e.sort()
    if s == z3.IntSort():
        return "int"
    if s == z3.StringSort():
        return "str"
    if s == z3.BoolSort():
        return "bool"
    return "other:" + str(s)


def find_handler(src: Source, expr: z3.ExprRef):
    """Replicates evaluate_z3_expression's dispatch on the real handler functions.
    returns (handler name | None, children_results)."""
    children = ()
    for ch in expr.children():
        r = ZH.evaluate_z3_expression(ch)
        children += (r.unwrap(),)
    for name in src.handler_names:
        res = getattr(ZH, name)(expr, children)
        if res is not Nothing:
            return name, children
    return None, children


def to_z3_const(v) -> z3.ExprRef:
    if isinstance(v, bool):
        return z3.BoolVal(v)
    if isinstance(v, int):
        return z3.IntVal(v)
    return z3.StringVal(v)


def ground(expr: z3.ExprRef, model: Dict[str, Any]) -> z3.ExprRef:
    subst = [(DECLS[k], to_z3_const(v)) for k, v in model.items() if k in DECLS]
    return z3.substitute(expr, *subst) if subst else expr


def z3_valid(atom: z3.BoolRef, timeout_ms: int = 5000) -> str:
    """Z3 4.11.2 (the Z3 ISLa users run) as ground oracle: 'true' | 'false' | 'unknown'."""
    s = z3.Solver()
    s.set("timeout", timeout_ms)
    s.add(z3.Not(atom))
    r = str(s.check())
    return {"unsat": "true", "sat": "false"}.get(r, "unknown")


def _tv(r) -> str:
    return "true" if r.is_true() else "false" if r.is_false() else "unknown"


def isla_valid(atom: z3.BoolRef) -> str:
    """is_valid of the real code: 'true' | 'false' | 'unknown' | 'raised: ...'"""
    try:
        ZH.evaluate_z3_expression.cache_clear()
        return _tv(ZH.is_valid(atom))
    except Exception as e:  # noqa
        return "raised: %s: %s" % (type(e).__name__, str(e)[:160])


def site_verdicts(expr: z3.BoolRef, model: Dict[str, Any]) -> Dict[str, str]:
    """The three call sites named by the property on the same instantiated atom:
       is_valid(ground atom); evaluator.evaluate_smt_formula with tree assignments for the string
       variables; SMTFormula.substitute_expressions (auto-evaluation of ground formulas)."""
    from isla import language as ISL
    from isla import evaluator as EV
    from isla.derivation_tree import DerivationTree
    out = {"is_valid": isla_valid(ground(expr, model))}
    ints = {k: v for k, v in model.items() if not isinstance(v, str) or k not in STR_VARS}
    strs = {k: v for k, v in model.items() if isinstance(v, str) and k in STR_VARS}
    partial = ground(expr, ints)
    used = {str(c) for c in _consts(partial)}
    strs = {k: v for k, v in strs.items() if k in used}
    if not strs:
        return out
    variables = {k: ISL.Variable(k, "<x>") for k in strs}
    trees = {k: DerivationTree(v, ()) for k, v in strs.items()}
    try:
        ZH.evaluate_z3_expression.cache_clear()
        f = ISL.SMTFormula(partial, *variables.values())
        r = EV.evaluate_smt_formula(f, {variables[k]: ((), trees[k]) for k in strs}, None, None, None, None)
        out["evaluate_smt_formula"] = _tv(r.unwrap())
    except Exception as e:  # noqa
        out["evaluate_smt_formula"] = "raised: %s: %s" % (type(e).__name__, str(e)[:160])
    try:
        ZH.evaluate_z3_expression.cache_clear()
        f = ISL.SMTFormula(partial, *variables.values())
        g = f.substitute_expressions({variables[k]: trees[k] for k in strs})
        if isinstance(g, ISL.SMTFormula) and (z3.is_true(g.formula) or z3.is_false(g.formula)):
            out["substitute_expressions"] = "true" if z3.is_true(g.formula) else "false"
        else:
            out["substitute_expressions"] = "not-evaluated: %s" % str(g)[:80]
    except Exception as e:  # noqa
        out["substitute_expressions"] = "raised: %s: %s" % (type(e).__name__, str(e)[:160])
    return out


def _consts(e: z3.ExprRef):
    todo, seen = [e], []
    while todo:
        x = todo.pop()
        if z3.is_const(x) and x.decl().kind() == z3.Z3_OP_UNINTERPRETED:
            seen.append(x)
        todo.extend(x.children())
    return seen


def judge_model(expr: z3.BoolRef, model: Dict[str, Any]) -> Tuple[Dict[str, str], str, bool]:
    """(site verdicts, z3 verdict, disagree?) — disagreement = any site raises, or gives a definite
    verdict different from Z3's definite verdict."""
    zi = z3_valid(ground(expr, model))
    sites = site_verdicts(expr, model)
    bad = any(v.startswith("raised") or (zi in ("true", "false") and v in ("true", "false") and v != zi)
              for v in sites.values())
    return sites, zi, bad


def judge(atom: z3.BoolRef) -> Tuple[str, str, bool]:
    """ground atom through is_valid only: (isla, z3, disagree?)"""
    zi = z3_valid(atom)
    ii = isla_valid(atom)
    bad = ii.startswith("raised") or (zi in ("true", "false") and ii in ("true", "false") and ii != zi)
    return ii, zi, bad


def atoms_for(expr: z3.ExprRef, model: Dict[str, Any]) -> List[z3.BoolRef]:
    """Non-ground atoms probing expr under the model: for Boolean terms the term and its negation;
    otherwise `term = v` for v = Z3's value of the ground term (must be judged valid)."""
    if kind_of(expr) == "bool":
        return [expr, z3.Not(expr)]
    v = z3.simplify(ground(expr, model))
    if z3.is_int_value(v) or z3.is_string_value(v):
        return [z3_eq(expr, v)]
    # Z3 leaves the term unspecified (e.g. division by zero): any equation is not valid
    return [z3_eq(expr, z3.IntVal(0) if kind_of(expr) == "int" else z3.StringVal(""))]


def handled_exceptions() -> List[str]:
    """Exception classes that BOTH call sites (is_valid, evaluate_smt_formula) catch around the fast
    path and answer without raising — read from the current source."""
    def caught(path, fname):
        t = ast.parse(open(path).read())
        names = set()
        for f in ast.walk(t):
            if isinstance(f, ast.FunctionDef) and f.name == fname:
                for n in ast.walk(f):
                    if isinstance(n, ast.ExceptHandler) and n.type is not None:
                        for e in ([n.type] if not isinstance(n.type, ast.Tuple) else n.type.elts):
                            names.add(ast.unparse(e))
        return names
    a = caught(SRC, "is_valid")
    b = caught(os.path.join(common.REPO_SRC, "isla", "evaluator.py"), "evaluate_smt_formula")
    return sorted(a & b)


# ---------------------------------------------------------------- regex family (O2)

LITS = ['a', 'b', 'ab', '.', '*', ']', '-', '\\', '"', '\n', 'é', '\x00', '', '^', '$', '(', '|', '{', 'a\n', '\\n', '\\t', 'Ā']


def lit_text(s: str) -> str:
    import smt
    return smt.smt_string(s)


def regex_leaves(level: int) -> List[str]:
    lits = LITS[:8] if level == 0 else LITS
    out = ['(str.to_re %s)' % lit_text(l) for l in lits]
    out += ['(re.range "a" "c")', '(re.range "0" "9")', 're.allchar', 're.all', 're.none']
    if level > 0:
        out += ['(re.range "+" "-")', '(re.range "\\u{5c}" "]")', '(re.range "b" "a")', '(re.range "a" "a")',
                '(re.range "\\u{0}" "\\u{ff}")', '(re.range "[" "^")', '(re.range "!" "~")']
    return out


UNARY = ['(re.* %s)', '(re.+ %s)', '(re.opt %s)', '(re.comp %s)', '((_ re.loop 2 2) %s)', '((_ re.loop 0 1) %s)',
         '((_ re.loop 1 3) %s)', '((_ re.loop 2) %s)', '((_ re.^ 2) %s)', '(re.loop %s 1 2)', '((_ re.loop 2 1) %s)']
BINARY = ['(re.++ %s %s)', '(re.union %s %s)', '(re.inter %s %s)', '(re.diff %s %s)']
TERNARY = ['(re.union %s %s %s)', '(re.++ %s %s %s)']


def regex_family(tier: str, seed: int = 0) -> List[str]:
    import random
    rnd = random.Random(seed)
    l0 = regex_leaves(0 if tier == "quick" else 1)
    fam: List[str] = list(regex_leaves(1))
    d1 = [u % l for u in UNARY for l in regex_leaves(1)]
    fam += d1
    for b in BINARY:
        for x in l0:
            for y in l0:
                fam.append(b % (x, y))
    if tier == "quick":
        # depth 3 sample: unary over binary, binary over unary
        small = l0[:6]
        for u in UNARY[:5]:
            for b in BINARY[:2]:
                for x in small[:4]:
                    for y in small[:4]:
                        fam.append(u % (b % (x, y)))
        for b in BINARY[:2]:
            for u in UNARY[:5]:
                for x in small[:4]:
                    for y in small[:4]:
                        fam.append(b % (u % x, y))
    else:
        mid = l0
        d2u = [u % (b % (x, y)) for u in UNARY for b in BINARY for x in mid[:12] for y in mid[:12]]
        d2b = [b % (u % x, y) for b in BINARY for u in UNARY for x in mid[:14] for y in mid[:14]]
        d2c = [b % (x, u % y) for b in BINARY for u in UNARY for x in mid[:14] for y in mid[:14]]
        d2t = [t % (x, y, z) for t in TERNARY for x in mid[:10] for y in mid[:10] for z in mid[:10]]
        d3 = [u1 % (u2 % x) for u1 in UNARY for u2 in UNARY for x in regex_leaves(1)]
        d3b = [b % (u1 % x, u2 % y) for b in BINARY for u1 in UNARY[:6] for u2 in UNARY[:6] for x in mid[:8] for y in mid[:8]]
        fam += d2u + d2b + d2c + d2t + d3 + d3b
    # dedupe, keep order
    seen, out = set(), []
    for r in fam:
        if r not in seen:
            seen.add(r)
            out.append(r)
    rnd.shuffle(out)
    return out


def in_re_wrapper(src: Source):
    """(fn name, prefix, suffix) of the re.<fn>(f'{prefix}{args[1]}{suffix}', args[0]) call in evaluate_z3_seq_in_re."""
    f = src.funcs["evaluate_z3_seq_in_re"]
    for n in ast.walk(f):
        if (isinstance(n, ast.Call) and isinstance(n.func, ast.Attribute) and isinstance(n.func.value, ast.Name)
                and n.func.value.id == "re" and n.func.attr in ("match", "fullmatch", "search") and len(n.args) >= 2):
            p = n.args[0]
            if isinstance(p, ast.JoinedStr):
                pre, suf, seen = "", "", False
                for v in p.values:
                    if isinstance(v, ast.Constant):
                        if seen:
                            suf += v.value
                        else:
                            pre += v.value
                    elif isinstance(v, ast.FormattedValue) and ast.unparse(v.value) == "args[1]":
                        if seen:
                            return None
                        seen = True
                    else:
                        return None
                if seen and ast.unparse(n.args[1]) == "args[0]" and len(n.args) == 2 and not n.keywords:
                    return n.func.attr, pre, suf
            elif ast.unparse(p) == "args[1]" and ast.unparse(n.args[1]) == "args[0]" and len(n.args) == 2 and not n.keywords:
                return n.func.attr, "", ""
    return None


# ---------------------------------------------------------------- O3: dispatch totality

def grammar_operator_tokens() -> List[str]:
    """Operator tokens of the lexer rules SMT_NONBINARY_OP / smt_binary_op / SMT_INFIX_RE_STR in the
    repository's IslaLanguage.g4 (literal alternatives and the named tokens they refer to)."""
    import re as _re
    g4 = open(os.path.join(common.REPO_SRC, "isla", "IslaLanguage.g4")).read()
    tokens: Dict[str, str] = {}
    for m in _re.finditer(r"^([A-Z_]+)\s*:\s*'([^']+)'\s*;", g4, _re.M):
        tokens[m.group(1)] = m.group(2)
    ops: List[str] = []
    for rule in ("SMT_NONBINARY_OP", "smt_binary_op", "SMT_INFIX_RE_STR"):
        m = _re.search(r"^%s\s*:(.*?);" % rule, g4, _re.M | _re.S)
        if not m:
            continue
        for alt in m.group(1).split("|"):
            alt = alt.strip()
            if alt.startswith("'"):
                ops.append(alt.strip("'"))
            elif alt in tokens:
                ops.append(tokens[alt])
    seen, out = set(), []
    for o in ops:
        if o not in seen:
            seen.add(o)
            out.append(o)
    return out


# ground instance templates per operator token: Boolean s-expressions over literals
I, S = ["(- 7)", "(- 1)", "0", "1", "2", "7"], ['""', '"a"', '"ab"', '"abc"', '"12"', '"-5"', '"a\\u{a}"', '"\\u{e9}"', '"\\u{100}x"',
                                                 # a backslash and a double quote (SMT-LIB 2.6: the backslash is an ordinary character, "" is the quote)
                                                 '"a\\b"', '"a""b"']
RX = ['(str.to_re "ab")', '(re.range "a" "c")', '(re.* (str.to_re "a"))', 're.allchar', 're.all', 're.none']


def _prod(*pools):
    return list(itertools.product(*pools))


OP_TEMPLATES: Dict[str, Any] = {
    "=": lambda: ["(= %s %s)" % p for p in _prod(I[:4], I[:4])] + ["(= %s %s)" % p for p in _prod(S[:5], S[:5])],
    ">=": lambda: ["(>= %s %s)" % p for p in _prod(I, I[:4])], "<=": lambda: ["(<= %s %s)" % p for p in _prod(I, I[:4])],
    ">": lambda: ["(> %s %s)" % p for p in _prod(I, I[:4])], "<": lambda: ["(< %s %s)" % p for p in _prod(I, I[:4])],
    "*": lambda: ["(= (* %s %s) %s)" % p for p in _prod(I, I[:3], ["0", "(- 7)", "14"])],
    "div": lambda: ["(= (div %s %s) %s)" % p for p in _prod(I, I, ["0", "(- 4)", "(- 3)", "3", "7"])],
    "mod": lambda: ["(= (mod %s %s) %s)" % p for p in _prod(I, I, ["0", "1", "(- 1)"])],
    "+": lambda: ["(= (+ %s %s) %s)" % p for p in _prod(I, I[:3], ["0", "(- 8)", "9"])],
    "-": lambda: ["(= (- %s %s) %s)" % p for p in _prod(I, I[:3], ["0", "(- 6)"])] + ["(= (- %s) %s)" % p for p in _prod(["1", "0", "(- 7)"], ["(- 1)", "0", "7"])],
    "^": lambda: ["(= (^ %s %s) %s)" % p for p in _prod(["2", "0", "(- 2)"], ["0", "1", "3"], ["1", "8", "(- 8)", "0"])],
    "abs": lambda: ["(= (abs %s) %s)" % p for p in _prod(I, ["7", "1", "0"])],
    "and": lambda: ["(and %s %s)" % p for p in _prod(["true", "false", "(= 1 1)"], ["true", "false", '(= "a" "b")'])],
    "or": lambda: ["(or %s %s)" % p for p in _prod(["true", "false", "(= 1 1)"], ["true", "false", '(= "a" "b")'])],
    "=>": lambda: ["(=> %s %s)" % p for p in _prod(["true", "false"], ["true", "false", "(= 1 2)"])],
    "xor": lambda: ["(xor %s %s)" % p for p in _prod(["true", "false"], ["true", "false", "(= 1 2)"])],
    "re.++": lambda: ["(str.in_re %s (re.++ %s %s))" % p for p in _prod(S[:5], RX[:4], RX[:4])],
    "str.++": lambda: ["(= (str.++ %s %s) %s)" % p for p in _prod(S[:4], S[:4], S[:4])] + ['(= (str.++ "a" "b" "c") "abc")', '(= (str.++ "a" "b" "c") "ab")'],
    "str.<=": lambda: ["(str.<= %s %s)" % p for p in _prod(S[:6], S[:6])],
    "re.+": lambda: ["(str.in_re %s (re.+ %s))" % p for p in _prod(S[:5], RX)],
    "re.*": lambda: ["(str.in_re %s (re.* %s))" % p for p in _prod(S[:5], RX)],
    "str.len": lambda: ["(= (str.len %s) %s)" % p for p in _prod(S, ["0", "1", "2", "7"])],
    "str.in_re": lambda: ["(str.in_re %s %s)" % p for p in _prod(S, RX)],
    "str.to_re": lambda: ["(str.in_re %s (str.to_re %s))" % p for p in _prod(S, S)],
    "re.none": lambda: ["(str.in_re %s re.none)" % p for p in S[:4]],
    "re.all": lambda: ["(str.in_re %s re.all)" % p for p in S],
    "re.allchar": lambda: ["(str.in_re %s re.allchar)" % p for p in S],
    "str.at": lambda: ["(= (str.at %s %s) %s)" % p for p in _prod(S[:4], I, ['""', '"a"', '"c"'])],
    "str.substr": lambda: ["(= (str.substr %s %s %s) %s)" % p for p in _prod(S[2:4], I, I[2:], ['""', '"a"', '"bc"'])],
    "str.prefixof": lambda: ["(str.prefixof %s %s)" % p for p in _prod(S[:4], S[:4])],
    "str.suffixof": lambda: ["(str.suffixof %s %s)" % p for p in _prod(S[:4], S[:4])],
    "str.contains": lambda: ["(str.contains %s %s)" % p for p in _prod(S[:4], S[:4])],
    "str.indexof": lambda: ["(= (str.indexof %s %s %s) %s)" % p for p in _prod(S[2:4], S[:3], I[2:5], ["0", "1", "(- 1)"])],
    "str.replace": lambda: ["(= (str.replace %s %s %s) %s)" % p for p in _prod(S[1:4], S[:2], S[4:5], S[1:5])],
    "str.replace_all": lambda: ["(= (str.replace_all %s %s %s) %s)" % p for p in _prod(S[1:4], S[1:2], S[4:5], S[1:5])],
    "str.replace_re": lambda: ['(= (str.replace_re "ab" (str.to_re "a") "12") "12b")', '(= (str.replace_re "ab" (str.to_re "a") "12") "ab")'],
    "str.replace_re_all": lambda: ['(= (str.replace_re_all "aba" (str.to_re "a") "1") "1b1")', '(= (str.replace_re_all "aba" (str.to_re "a") "1") "1ba")'],
    "re.union": lambda: ["(str.in_re %s (re.union %s %s))" % p for p in _prod(S[:5], RX[:4], RX[:4])],
    "re.inter": lambda: ["(str.in_re %s (re.inter %s %s))" % p for p in _prod(S[:5], RX[:4], RX[:4])],
    "re.comp": lambda: ["(str.in_re %s (re.comp %s))" % p for p in _prod(S[:5], RX)],
    "re.diff": lambda: ["(str.in_re %s (re.diff %s %s))" % p for p in _prod(S[:5], RX[:4], RX[:4])],
    "re.opt": lambda: ["(str.in_re %s (re.opt %s))" % p for p in _prod(S[:5], RX)],
    "re.range": lambda: ["(str.in_re %s (re.range %s %s))" % p for p in _prod(S[:4], ['"a"', '"0"', '"]"'], ['"c"', '"9"', '"a"'])],
    "re.loop": lambda: ["(str.in_re %s ((_ re.loop %s %s) %s))" % p for p in _prod(S[:5], ["0", "1", "2"], ["0", "1", "2", "3"], RX[:3])]
    + ["(str.in_re %s (re.loop %s 0 0))" % p for p in _prod(S[:3], RX[:2])]
    + ["(str.in_re %s (re.loop %s 1 2))" % p for p in _prod(S[:3], RX[:2])],
    "str.is_digit": lambda: ["(str.is_digit %s)" % p for p in S + ['"7"']],
    "str.to_code": lambda: ["(= (str.to_code %s) %s)" % p for p in _prod(S, ["97", "(- 1)", "233"])],
    "str.from_code": lambda: ["(= (str.from_code %s) %s)" % p for p in _prod(["97", "(- 1)", "233", "0"], S[:3] + ['"\\u{e9}"'])],
    "str.to.int": lambda: ["(= (str.to.int %s) %s)" % p for p in _prod(['"12"', '"007"', '"0"'], ["12", "7", "0", "(- 1)"])],
    "str.from_int": lambda: ["(= (str.from_int %s) %s)" % p for p in _prod(I, ['"7"', '""', '"-7"', '"0"'])],
}

# every string operator once more with a backslash / double-quote string as its FIRST literal: that literal is lifted into
# a tree variable, so its characters travel through the instantiation code of all three call sites (fast path or Z3 fallback)
_SPECIAL = ['"a\\b"', '"a""b"', '"\\"', '"\\\\"']
_SPECIAL_TEMPLATES = {
    "str.indexof": ['(= (str.indexof %s "b" 0) 2)', '(= (str.indexof %s "b" 0) 3)', '(= (str.indexof %s "b" 0) (- 1))'],
    "str.replace": ['(= (str.replace %s "b" "c") "a\\c")', '(= (str.len (str.replace %s "a" "")) 2)'],
    "str.replace_all": ['(= (str.len (str.replace_all %s "a" "")) 2)'],
    "str.suffixof": ['(str.suffixof "b" %s)', '(str.suffixof "\\b" %s)'],
    "str.prefixof": ['(str.prefixof %s "a\\bc")', '(str.prefixof %s "a""bc")'],
    "str.contains": ['(str.contains %s "\\")', '(str.contains %s """")'],
    "str.++": ['(= (str.len (str.++ %s "x")) 4)', '(= (str.len (str.++ %s "x")) 5)'],
    "str.<=": ['(str.<= %s "a\\c")', '(str.<= %s "a")'],
    "str.at": ['(= (str.at %s 1) "\\")', '(= (str.at %s 1) """")'],
    "str.substr": ['(= (str.len (str.substr %s 0 5)) 3)', '(= (str.len (str.substr %s 1 5)) 2)'],
    "str.len": ['(= (str.len %s) 3)', '(= (str.len %s) 4)', '(= (str.len %s) 1)', '(= (str.len %s) 2)'],
    "div": ['(= (div (str.len %s) 2) 1)', '(= (div (str.len %s) 2) 2)', '(= (div (str.len %s) 2) 0)'],
    "str.to_code": ['(= (str.to_code (str.at %s 1)) 92)', '(= (str.to_code (str.at %s 1)) 34)'],
    "=": ['(= %s "a\\b")', '(= %s "a""b")', '(= %s "\\")'],
}
for _op, _ts in _SPECIAL_TEMPLATES.items():
    OP_TEMPLATES[_op] = (lambda base, ts: (lambda: base() + [t % sp for t in ts for sp in _SPECIAL]))(OP_TEMPLATES[_op], _ts)

