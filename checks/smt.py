"""E-SMT: long-lived `z3-new -in` (5.1.0) and `cvc5 --incremental` (1.0.3) sessions fed SMT-LIB2.

An obligation is (declarations, assertions, values-to-get).  Both solvers must agree;
`unknown`, timeout, an `(error` line or disagreement make the obligation inconclusive.
Term construction is done with ISLa's own z3 4.11.2 Python API (sexpr of the real objects).
"""
from __future__ import annotations

import os
import re
import select
import shutil
import subprocess
import time
from typing import Any, Dict, List, Optional, Sequence, Tuple

SENTINEL = "@@END-OF-QUERY@@"


class Session:
    def __init__(self, kind: str, timeout_ms: int = 10000):
        self.kind = kind
        self.timeout_ms = timeout_ms
        self.proc: Optional[subprocess.Popen] = None
        self.version = ""

    def _cmd(self) -> List[str]:
        if self.kind == "z3new":
            return [shutil.which("z3-new") or "z3-new", "-in", "-t:%d" % self.timeout_ms]
        if self.kind == "cvc5":
            return [shutil.which("cvc5") or "cvc5", "--incremental", "--strings-exp", "--lang=smt2",
                    "--produce-models", "--tlimit-per=%d" % self.timeout_ms]
        if self.kind == "cvc5fmf":
            return [shutil.which("cvc5") or "cvc5", "--incremental", "--strings-exp", "--strings-fmf", "--lang=smt2",
                    "--produce-models", "--tlimit-per=%d" % self.timeout_ms]
        raise ValueError(self.kind)

    def start(self):
        self.proc = subprocess.Popen(self._cmd(), stdin=subprocess.PIPE, stdout=subprocess.PIPE,
                                     stderr=subprocess.STDOUT, bufsize=0)
        self._buf = b""
        if self.kind == "z3new":
            self._send("(set-option :produce-models true)\n")
        else:
            self._send("(set-logic ALL)\n")

    def stop(self):
        if self.proc is not None:
            try:
                self.proc.kill()
                self.proc.wait(timeout=5)
            except Exception:
                pass
            self.proc = None

    def _send(self, text: str):
        assert self.proc is not None and self.proc.stdin is not None
        self.proc.stdin.write(text.encode("utf-8"))
        self.proc.stdin.flush()

    def _read_until_sentinel(self, deadline: float) -> Optional[List[str]]:
        assert self.proc is not None and self.proc.stdout is not None
        fd = self.proc.stdout.fileno()
        sent = SENTINEL.encode()
        while True:
            idx = self._buf.find(sent)
            if idx >= 0:
                nl = self._buf.find(b"\n", idx)
                if nl >= 0:
                    head, self._buf = self._buf[:idx], self._buf[nl + 1:]
                    lines = head.decode("utf-8", "replace").split("\n")
                    if lines and lines[-1].strip() in ("", '"'):
                        lines = lines[:-1]
                    return lines
            remaining = deadline - time.time()
            if remaining <= 0:
                return None
            r, _, _ = select.select([fd], [], [], remaining)
            if not r:
                return None
            chunk = os.read(fd, 65536)
            if not chunk:
                return None  # process died
            self._buf += chunk

    def query(self, decls: str, asserts: Sequence[str], get_values: Sequence[str] = ()) -> Dict[str, Any]:
        """returns dict(result= sat|unsat|unknown|error|timeout, values={name: sexpr}, s=seconds)"""
        if self.proc is None or self.proc.poll() is not None:
            self.start()
        body = ["(push 1)", decls] + ["(assert %s)" % a for a in asserts] + ["(check-sat)"]
        text = "\n".join(body) + '\n(echo "%s")\n' % SENTINEL
        t0 = time.time()
        hard = self.timeout_ms / 1000.0 * 1.5 + 5
        try:
            self._send(text)
            lines = self._read_until_sentinel(t0 + hard)
        except (BrokenPipeError, OSError):
            lines = None
        if lines is None:
            self.stop()
            return dict(result="timeout", values={}, s=time.time() - t0, raw="")
        raw = "\n".join(lines)
        res = "error"
        for ln in lines:
            s = ln.strip()
            if s in ("sat", "unsat", "unknown"):
                res = s
            if s.startswith("(error"):
                res = "error"
                break
            if "interrupted by timeout" in s or s == "timeout":
                res = "unknown"
        values: Dict[str, Any] = {}
        if res == "sat" and get_values:
            try:
                self._send("(get-value (%s))\n(echo \"%s\")\n" % (" ".join(get_values), SENTINEL))
                vl = self._read_until_sentinel(time.time() + 10)
                if vl is not None:
                    values = parse_values("\n".join(vl))
            except (BrokenPipeError, OSError):
                self.stop()
        if self.proc is not None:
            try:
                self._send("(pop 1)\n")
            except (BrokenPipeError, OSError):
                self.stop()
        return dict(result=res, values=values, s=time.time() - t0, raw=raw[-400:])


# --------------------------------------------------------------------------
# s-expression / model value parsing

_TOK = re.compile(r'"(?:[^"]|"")*"|\(|\)|[^\s()"]+')


def parse_sexpr(text: str):
    toks = _TOK.findall(text)
    pos = 0

    def rec():
        nonlocal pos
        t = toks[pos]
        pos += 1
        if t == "(":
            out = []
            while toks[pos] != ")":
                out.append(rec())
            pos += 1
            return out
        return t
    out = []
    while pos < len(toks):
        out.append(rec())
    return out


def smt_unescape(lit: str) -> str:
    """SMT-LIB 2.6 string literal (with quotes) -> Python str."""
    assert lit[0] == '"' and lit[-1] == '"'
    s = lit[1:-1].replace('""', '"')

    def rep(m):
        return chr(int(m.group(1) or m.group(2), 16))
    return re.sub(r"\\u\{([0-9a-fA-F]{1,5})\}|\\u([0-9a-fA-F]{4})", rep, s)


def smt_string(s: str) -> str:
    """Python str -> SMT-LIB 2.6 string literal."""
    out = []
    for ch in s:
        o = ord(ch)
        if ch == '"':
            out.append('""')
        elif ch == "\\" or o < 0x20 or o > 0x7E:
            out.append("\\u{%x}" % o)
        else:
            out.append(ch)
    return '"' + "".join(out) + '"'


def value_to_py(v) -> Any:
    if isinstance(v, str):
        if v.startswith('"'):
            return smt_unescape(v)
        if v in ("true", "false"):
            return v == "true"
        if re.fullmatch(r"-?\d+", v):
            return int(v)
        return v
    if isinstance(v, list) and len(v) == 2 and v[0] == "-":
        return -value_to_py(v[1])
    return v


def parse_values(text: str) -> Dict[str, Any]:
    try:
        sx = parse_sexpr(text)
    except Exception:
        return {}
    out = {}
    for top in sx:
        if isinstance(top, list):
            for pair in top:
                if isinstance(pair, list) and len(pair) == 2 and isinstance(pair[0], str):
                    out[pair[0]] = value_to_py(pair[1])
    return out


# --------------------------------------------------------------------------
# z3 (python, 4.11.2) -> portable SMT-LIB text

def portable(sexpr: str) -> str:
    s = sexpr
    s = s.replace("(RegEx String)", "RegLan").replace("(Seq Char)", "String")
    s = re.sub(r"\(as re\.all RegLan\)", "re.all", s)
    s = re.sub(r"\(as re\.none RegLan\)", "re.none", s)
    s = re.sub(r"\(as re\.empty RegLan\)", "re.none", s)
    s = re.sub(r"\(as re\.allchar RegLan\)", "re.allchar", s)
    s = re.sub(r"\(as seq\.empty String\)", '""', s)
    s = s.replace("re.full", "re.all") if "re.full" in s else s
    s = s.replace("str.to.int", "str.to_int").replace("int.to.str", "str.from_int")
    s = s.replace("str.in.re", "str.in_re").replace("str.to.re", "str.to_re")
    return s


def decls_for(consts) -> str:
    """z3 python constants -> declare-const lines."""
    out = []
    for c in consts:
        out.append("(declare-const %s %s)" % (c.sexpr(), portable(c.sort().sexpr())))
    return "\n".join(out)


_sessions: Dict[str, Session] = {}


def session(kind: str, timeout_ms: int = 10000) -> Session:
    key = "%s/%d" % (kind, timeout_ms)
    s = _sessions.get(key)
    if s is None:
        s = Session(kind, timeout_ms)
        _sessions[key] = s
    return s


def close_all():
    for s in _sessions.values():
        s.stop()
    _sessions.clear()


def decide(decls: str, asserts: Sequence[str], get_values: Sequence[str] = (), timeout_ms: int = 10000,
           solvers: Sequence[str] = ("z3new", "cvc5"), need_all: bool = False,
           timeout_overrides: Optional[Dict[str, int]] = None) -> Dict[str, Any]:
    """Run the query on the given solvers.  Verdict:
       'unsat'  - at least one solver says unsat and none says sat (all, if need_all)
       'sat'    - at least one says sat and none says unsat; values from the first sat solver
       'inconclusive' - otherwise (unknown/timeout/error everywhere, or disagreement)."""
    answers = {}
    values = {}
    total = 0.0
    for k in solvers:
        r = session(k, (timeout_overrides or {}).get(k, timeout_ms)).query(decls, asserts, get_values)
        answers[k] = r["result"]
        total += r["s"]
        if r["result"] == "sat" and not values:
            values = r["values"]
        if r["result"] == "error":
            answers[k] = "error: " + r.get("raw", "")[-200:]
    vals = list(answers.values())
    has_sat, has_unsat = "sat" in vals, "unsat" in vals
    if has_sat and has_unsat:
        verdict = "inconclusive"
    elif has_unsat and (not need_all or all(v == "unsat" for v in vals)):
        verdict = "unsat"
    elif has_sat:
        verdict = "sat"
    else:
        verdict = "inconclusive"
    return dict(verdict=verdict, answers=answers, values=values, s=total)


def versions() -> Dict[str, str]:
    out = {}
    for name, cmd in (("z3new", ["z3-new", "--version"]), ("cvc5", ["cvc5", "--version"])):
        try:
            out[name] = subprocess.run(cmd, capture_output=True, text=True, timeout=10).stdout.split("\n")[0]
        except Exception as e:  # pragma: no cover
            out[name] = "missing: %r" % e
    return out
