"""C12 — fuzzer expansions and mutations produce valid trees of the same kind (CrossHair, [decoder] + random stub)."""
import os

import common
import xh

HARNESS = os.path.join(os.path.dirname(__file__), "harness", "h_c12.py")


def keyfn(r):
    g = r["env"].get("VERIF_G", "0")
    err = r["replay"].get("err") or ""
    if "raised" in err:
        cls = "raises"
    elif "not closed" in err:
        cls = "not-closed"
    elif "not a derivation tree" in err:
        cls = "invalid-tree"
    elif "was changed" in err or "not completed in place" in err:
        cls = "expanded-part-changed"
    else:
        cls = "other"
    return ("%s/g%s/%s" % (r["name"], g, cls), "%s on choices %s: %s" % (r["name"], r["args"], err[:400]))


def main(tier, only):
    run = common.Run("C12", tier, "other", [common.src_range("src/isla/fuzzer.py", f) for f in
                     ["GrammarFuzzer.expand_tree", "GrammarFuzzer.expand_tree_once", "GrammarFuzzer.expand_node_randomly",
                      "GrammarFuzzer.expand_node_by_cost", "GrammarFuzzer.expansion_to_children", "GrammarCoverageFuzzer.choose_node_expansion"]] +
                     [common.src_range("src/isla/mutator.py", f) for f in ["Mutator.replace_subtree_randomly", "Mutator.generalize_subtree", "Mutator.swap_subtrees", "Mutator.mutate"]])
    L, D, to = (4, 2, 200) if tier == "quick" else (6, 3, 2400)
    cfgs = [dict(tag="g%d" % g, env={"VERIF_G": str(g), "VERIF_L": str(L), "VERIF_D": str(D)}, only=None, timeout=to) for g in range(4)]
    run.bounds = dict(trees="all trees decodable from <= %d pre-order choices (open trees for expansion, closed for mutation), 4 grammars "
                            "(statement grammar with epsilon, left-recursive expression grammar, terminals that resemble nonterminals, recursive start symbol)" % L,
                      random="every periodic stream of period %d over 4 values, replayed into randrange/randint/choice/choices/random/shuffle/sample" % D)
    run.engines = dict(crosshair="crosshair-tool 0.0.110 on z3 4.11.2")
    run.trusted = ["tree validator vlib.valid_tree", "random stub (Stream) in the harness"]
    run.assumptions = ["[decoder]: the solver enumerates the trees; the random streams are enumerated natively per tree",
                       "Mutator.mutate / swap_subtrees are exercised since the repair 2a1cb56 (before it they raised TypeError from the installed `returns` version)"]
    run.outside = ["aperiodic random streams longer than the period, larger trees, other grammars"]
    res = xh.check_many("C12", HARNESS, cfgs, twin_timeout=120)
    xh.record(run, res, "", keyfn)
    return run.finish(
        "Real GrammarFuzzer.expand_tree, GrammarCoverageFuzzer.expand_tree, Mutator.replace_subtree_randomly, generalize_subtree, swap_subtrees and mutate on every "
        "bounded input tree and every periodic random stream: the result must be a closed derivation tree of the grammar with the same root; "
        "every node that was already expanded keeps its id, label and children labels; open leaves are completed in place.")


def replay(d):
    return xh.replay_file(d)
