"""C20 — library semantic predicates decide their documented relation on concrete trees (CrossHair, [decoder])."""
import os

import common
import xh

HARNESS = os.path.join(os.path.dirname(__file__), "harness", "h_c20.py")


def keyfn(r):
    err = r["replay"].get("err") or ""
    n = r["name"]
    if n == "octal":
        cls = "both-trees" if "?" not in err.split("=")[0] else "replacement"
        kind = "raises" if "raised" in err else "wrong-verdict"
        return ("octal/%s/%s" % (cls, kind), err[:400])
    if n == "just":
        variant = err.split(":")[1].strip().split("(")[0] if ":" in err else "?"
        kind = "raises" if "raised" in err else ("wrong-verdict" if "= True" in err or "although" in err else "wrong-replacement")
        return ("just/%s/%s" % (variant, kind), err[:400])
    if n == "just_tar":
        field = err.split("(<")[1].split(">")[0] if "(<" in err else "?"
        kind = "raises" if " raised " in err else ("wrong-verdict" if "= True" in err or "although" in err else
                                                   ("invalid-replacement" if "not a derivation tree" in err else "wrong-replacement"))
        return ("just_tar/%s/%s" % (field, kind), err[:400])
    return ("count/closed/" + ("raises" if "raised" in err else "wrong-verdict"), err[:400])


def main(tier, only):
    run = common.Run("C20", tier, "other", [common.src_range("src/isla/isla_predicates.py", f) for f in
                     ["count", "crop", "just", "octal_to_dec", "octal_to_dec_concrete_octal", "octal_to_dec_concrete_decimal", "octal_to_dec_both_trees"]] +
                     [common.src_range("src/isla_formalizations/tar.py", f) for f in ["octal_to_decimal_tar", "mk_tar_parser", "TarParser.parse_file_name", "TarParser.parse_linked_file_name"]])
    ndig, nch, wmax, cl, to = (2, 3, 5, 6, 240) if tier == "quick" else (3, 4, 7, 8, 2400)
    env = {"VERIF_NDIG": str(ndig), "VERIF_NCH": str(nch), "VERIF_WMAX": str(wmax), "VERIF_CL": str(cl)}
    cfgs = [dict(tag="", env=env, only=["count_closed"], timeout=to)]
    for d in range(8):
        cfgs.append(dict(tag="first%d" % d, env=dict(env, VERIF_FIRSTDIGIT=str(d)), only=["octal"], timeout=to))
    for v in range(6):
        cfgs.append(dict(tag="variant%d" % v, env=dict(env, VERIF_VARIANT=str(v)), only=["just"], timeout=to))
    for k in range(5):
        cfgs.append(dict(tag="tar-field%d" % k, env=dict(env, VERIF_TARKIND=str(k)), only=["just_tar"], timeout=to))
    run.bounds = dict(tar_fields="ljust_crop_tar / rjust_crop_tar on <file_name>, <linked_file_name>, <uname>, <checksum>, <file_size> trees of the TAR grammar: text part of 0..3 "
                                 "characters or field width -3..+3, followed by 0/1/2 NULs or the number of NULs that fills the field exactly / one less / one more",
                      octal="all octal numerals of <= %d digits x all decimal numerals of <= %d digits x 3 argument modes (both concrete / either side a variable)" % (ndig, ndig),
                      just="all strings of <= %d characters over {a, b, 0, space} x widths 0..%d x 4 fill characters x 6 predicates x width as int/tree" % (nch, wmax),
                      count="all closed trees decodable from <= %d choices x 3 needles (two of them recursive) x targets 0..5 / numeric variable" % cl)
    run.engines = dict(crosshair="crosshair-tool 0.0.110 on z3 4.11.2")
    run.trusted = ["Python int(s, 8), str.ljust/rjust and slicing as reference for the documented relations"]
    run.assumptions = ["[decoder]: the solver enumerates the argument strings / trees; numerals, widths and fill characters are enumerated natively per argument",
                       "ljust/rjust without crop on an argument longer than the width are outside the claim (the implementation asserts)",
                       "extend_crop: argument made of one repeated character (asserted by the implementation)"]
    run.outside = ["longer numerals/strings, other grammars, the tar checksum predicate"]
    res = xh.check_many("C20", HARNESS, cfgs, twin_timeout=120)
    xh.record(run, res, "", keyfn)
    return run.finish(
        "Real octal_to_decimal (as shipped for TAR), crop/ljust/rjust/ljust_crop/rjust_crop/extend_crop and count evaluated on every bounded closed "
        "argument: verdicts must match the documented relation, proposed replacements must satisfy it and be trees for the argument's nonterminal.")


def replay(d):
    return xh.replay_file(d)
