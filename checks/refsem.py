"""Reference semantics of core ISLa on CLOSED derivation trees, transcribed from sphinx/islaspec.rst
(section "Semantics"): tree quantifiers range over subtrees(N, t) (t included), match() is the
recursive definition of the specification, numeric quantifiers range over numerals, SMT atoms are
decided by Z3 on the instantiated formula, structural predicates have the documented meaning
(table + isBefore), count() counts occurrences of a nonterminal.

Deliberately naive and independent of isla.evaluator.  The only pieces of ISLa it calls are the
formula AST accessors and BindExpression.to_tree_prefix (mexprTrees of the specification; the parsing
of match expressions is not re-implemented).
"""
from __future__ import annotations

from typing import Any, Dict, List, Optional, Tuple

import z3

from isla import language as L


class RefUndefined(Exception):
    """the reference has no verdict (Z3 unknown, unsupported construct)"""


# ------------------------------------------------------------------ trees and paths

def nodes(t) -> List[Tuple[tuple, Any]]:
    out = []

    def rec(n, p):
        out.append((p, n))
        for i, c in enumerate(n.children or ()):
            rec(c, p + (i,))
    rec(t, ())
    return out


def path_of(root, node) -> tuple:
    for p, n in nodes(root):
        if n.id == node.id:
            return p
    raise RefUndefined("node not in reference tree")


def is_prefix(p: tuple, q: tuple) -> bool:
    return len(p) <= len(q) and q[:len(p)] == p


def before(p: tuple, q: tuple) -> bool:
    for a, b in zip(p, q):
        if a != b:
            return a < b
    return False


def is_nonterminal(s: str) -> bool:
    return len(s) > 2 and s[0] == "<" and s[-1] == ">" and " " not in s


def tree_str(n) -> str:
    if n.children is None:
        raise RefUndefined("open tree")
    if not n.children:
        return "" if is_nonterminal(n.value) else n.value
    return "".join(tree_str(c) for c in n.children)


# ------------------------------------------------------------------ structural predicates

def structural(name: str, root, args: List[Any]) -> bool:
    def P(x):
        return path_of(root, x)
    if name == "before":
        return before(P(args[0]), P(args[1]))
    if name == "after":
        return before(P(args[1]), P(args[0]))
    if name == "inside":
        return is_prefix(P(args[1]), P(args[0]))
    if name == "direct_child":
        p, q = P(args[0]), P(args[1])
        return len(p) == len(q) + 1 and p[:len(q)] == q
    if name == "same_position":
        return P(args[0]) == P(args[1])
    if name == "different_position":
        return P(args[0]) != P(args[1])
    if name == "nth":
        n, p, q = int(args[0]), P(args[1]), P(args[2])
        if not is_prefix(q, p):
            return False
        lab = args[1].value
        same = [r for r, m in nodes(root) if is_prefix(q, r) and m.value == lab]
        return same.index(p) + 1 == n
    if name == "level":
        op, nt, p, q = args[0], args[1], P(args[2]), P(args[3])
        lab = {r: m.value for r, m in nodes(root)}

        def inner(x):
            best = 0
            for i in range(1, len(x)):
                if lab[x[:i]] == nt:
                    best = i
            return best
        scopes = [0]
        for i in range(1, min(len(p), len(q)) + 1):
            if p[:i] != q[:i]:
                break
            if lab[p[:i]] == nt:
                scopes.append(i)
        l1, l2 = inner(p), inner(q)
        for c in scopes:
            no1, no2 = l1 <= c, l2 <= c
            if (op == "EQ" and no1 and no2) or (op == "GE" and no1) or (op == "LE" and no2) or \
                    (op == "GT" and no1 and not no2) or (op == "LT" and no2 and not no1):
                return True
        return False
    raise RefUndefined("structural predicate " + name)


# ------------------------------------------------------------------ match (specification, recursive)

def match(t, t2, P: Dict[Any, tuple]) -> Optional[Dict[Any, Any]]:
    """match(t, t', P) of the specification: None = bottom"""
    numc = len(t.children or ())
    numc2 = len(t2.children or ())
    if t.value != t2.value or (numc2 > 0 and numc != numc2):
        return None
    here = [v for v, p in P.items() if p == ()]
    if len(P) == 1 and here:
        return {here[0]: t}
    out: Dict[Any, Any] = {}
    for v in here:          # (several variables may sit on the path; the spec's P=[v->()] case generalised)
        out[v] = t
    if numc2 == 0:
        # t' is a leaf of the match-expression tree: an open nonterminal matches any subtree with that label,
        # a terminal leaf matches the same terminal
        if t2.children is not None and is_nonterminal(t2.value) and numc != 0:
            return None     # t' is a closed epsilon node
        return out
    for i in range(numc):
        Pi = {v: p[1:] for v, p in P.items() if p and p[0] == i}
        m = match(t.children[i], t2.children[i], Pi)
        if m is None:
            return None
        out.update(m)
    return out


# ------------------------------------------------------------------ formulas

def smt_holds(formula: z3.BoolRef, subst: Dict[str, str]) -> bool:
    pairs = [(z3.String(name), z3.StringVal(val)) for name, val in subst.items()]
    inst = z3.substitute(formula, *pairs) if pairs else formula
    s = z3.simplify(inst)
    if z3.is_true(s):
        return True
    if z3.is_false(s):
        return False
    sol = z3.Solver()
    sol.set("timeout", 3000)
    sol.add(z3.Not(inst))
    r = sol.check()
    if r == z3.unsat:
        return True
    if r == z3.sat:
        return False
    raise RefUndefined("z3 unknown on " + str(inst)[:80])


def numeral_candidates(root) -> List[str]:
    """values a numeric quantifier is tried on: every length / count / numeral derivable from the tree, +-1,
    and a few constants.  Sufficient for formulas in which the numeric variable is only compared
    (=, <, <=, >, >=) with such quantities or passed to count()."""
    vals = {0, 1, 2, 3, 5, 10}
    ns = nodes(root)
    labels = {}
    for _, n in ns:
        labels[n.value] = labels.get(n.value, 0) + 1
        try:
            s = tree_str(n)
        except RefUndefined:
            continue
        vals.add(len(s))
        if s.isdigit() and len(s) < 6:
            vals.add(int(s))
    for _, n in ns:
        sub = {}
        for _, m in nodes(n):
            sub[m.value] = sub.get(m.value, 0) + 1
        vals.update(sub.values())
    vals |= {v + 1 for v in vals} | {v - 1 for v in vals if v > 0}
    return [str(v) for v in sorted(vals) if v >= 0]


def ref_eval(f: L.Formula, root, grammar, beta: Optional[Dict[Any, Any]] = None) -> bool:
    """beta: Variable -> DerivationTree (subtree of root) or str (numeral of a numeric quantifier)"""
    if beta is None:
        consts = [v for v in L.VariablesCollector.collect(f) if isinstance(v, L.Constant)]
        beta = {c: root for c in consts}
    if isinstance(f, L.SMTFormula):
        if f.substitutions or f.instantiated_variables:
            raise RefUndefined("SMT formula with tree substitutions")
        subst = {}
        for v in f.free_variables():
            x = beta[v]
            subst[v.name] = x if isinstance(x, str) else tree_str(x)
        return smt_holds(f.formula, subst)
    if isinstance(f, L.NegatedFormula):
        return not ref_eval(f.args[0], root, grammar, beta)
    if isinstance(f, L.ConjunctiveFormula):
        return all(ref_eval(a, root, grammar, beta) for a in f.args)
    if isinstance(f, L.DisjunctiveFormula):
        return any(ref_eval(a, root, grammar, beta) for a in f.args)
    if isinstance(f, L.StructuralPredicateFormula):
        args = [beta[a] if isinstance(a, L.Variable) else a for a in f.args]
        return structural(f.predicate.name, root, args)
    if isinstance(f, L.SemanticPredicateFormula):
        if f.predicate.name != "count":
            raise RefUndefined("semantic predicate " + f.predicate.name)
        t, needle, num = [beta[a] if isinstance(a, L.Variable) else a for a in f.args]
        n = int(num if isinstance(num, (str, int)) else tree_str(num))
        return sum(1 for _, m in nodes(t) if m.value == needle) == n
    if isinstance(f, L.NumericQuantifiedFormula):
        results = (ref_eval(f.inner_formula, root, grammar, {**beta, f.bound_variable: c}) for c in numeral_candidates(root))
        return all(results) if isinstance(f, L.ForallIntFormula) else any(results)
    if isinstance(f, L.QuantifiedFormula):
        in_t = beta[f.in_variable] if isinstance(f.in_variable, L.Variable) else f.in_variable
        T = f.bound_variable.n_type
        subtrees = [n for _, n in nodes(in_t) if n.value == T]
        insts: List[Dict[Any, Any]] = []
        if f.bind_expression is None:
            insts = [{f.bound_variable: t1} for t1 in subtrees]
        else:
            mexpr_trees = f.bind_expression.to_tree_prefix(T, grammar)
            for t1 in subtrees:
                for t2, P in mexpr_trees:
                    m = match(t1, t2, dict(P))
                    if m is not None:
                        insts.append({f.bound_variable: t1, **m})
        results = (ref_eval(f.inner_formula, root, grammar, {**beta, **i}) for i in insts)
        return all(results) if isinstance(f, L.ForallFormula) else any(results)
    raise RefUndefined("formula type " + type(f).__name__)
