"""C17 — serialized trees and constraints round-trip without damaging the original (CrossHair, [decoder])."""
import os

import common
import xh

HARNESS = os.path.join(os.path.dirname(__file__), "harness", "h_c17.py")


def keyfn(r):
    err = r["replay"].get("err") or ""
    if r["name"] == "smt":
        cls = "smt/cannot-restore" if "cannot be restored" in err else "smt/changed"
    elif "damaged" in err or "answers differently" in err or " raised " in err:
        cls = "tree/original-damaged"
    elif "next_id" in err or "fresh node" in err:
        cls = "tree/id-reuse-after-decoding"
    elif "CLI JSON" in err:
        cls = "tree/cli-json"
    elif "from_json" in err or "pickle.loads" in err:
        cls = "tree/decoded-differs"
    else:
        cls = "tree/other"
    return (cls, "%s(%s): %s" % (r["name"], r["args"], err[:400]))


def main(tier, only):
    run = common.Run("C17", tier, "other", [common.src_range("src/isla/derivation_tree.py", "DerivationTree." + f) for f in
                     ["to_json", "from_json", "__getstate__", "__setstate__", "k_paths", "to_parse_tree", "from_parse_tree"]] +
                     [common.src_range("src/isla/language.py", "SMTFormula.__getstate__"), common.src_range("src/isla/language.py", "SMTFormula.__setstate__"),
                      common.src_range("src/isla/cli.py", "derivation_tree_to_json")])
    L, K, nlit, to = (4, 2, 2, 240) if tier == "quick" else (6, 3, 3, 2400)
    env = {"VERIF_L": str(L), "VERIF_K": str(K), "VERIF_NLIT": str(nlit)}
    cfgs = [dict(tag="", env=env, only=None, timeout=to)]
    run.bounds = dict(trees="all (open or closed) trees decodable from <= %d choices" % L,
                      sequences="every sequence of <= %d operations over to_json, pickle.dumps, k_paths, concrete k_paths, structural_hash, hash, str, from_json(to_json)" % K,
                      literals="every string literal of <= %d characters over 15 characters (quote, backslash, newline, tab, non-ASCII, NUL, emoji, the letters of \\u{...}) inside 5 SMT atoms" % nlit)
    run.engines = dict(crosshair="crosshair-tool 0.0.110 on z3 4.11.2", z3="z3 4.11.2 decides semantic equality of a restored formula that is not structurally equal")
    run.trusted = ["reference traversal (h_c16)", "fresh interpreter simulated by resetting DerivationTree.next_id before decoding"]
    run.assumptions = ["[decoder]: the solver enumerates trees / literal index vectors; operation sequences are enumerated natively per tree"]
    run.outside = ["longer literals, larger trees, characters outside the alphabet; ISLa's text parser rejects some literals before they can be pickled (C07)"]
    res = xh.check_many("C17", HARNESS, cfgs, twin_timeout=120)
    xh.record(run, res, "", keyfn)
    return run.finish(
        "Trees: after every bounded sequence of serialisations and cache computations the original object answers every read method like a fresh clone; "
        "JSON and pickle decoding (fresh-interpreter id counter) give the same structure, ids and string and leave the id counter above all decoded ids; the "
        "CLI's JSON output reads back as the same tree. SMT formulas: pickle round trip restores the same constraint for every bounded literal.")


def replay(d):
    return xh.replay_file(d)
