"""C14 — solver helpers that build trees to a target meet that target (CrossHair; symbolic target length / count)."""
import os

import common
import xh

HARNESS = os.path.join(os.path.dirname(__file__), "harness", "h_c14.py")


def keyfn(r):
    err = r["replay"].get("err") or ""
    if "raised" in err:
        cls = "raises"
    elif "not closed" in err or "still has open leaves" in err:
        cls = "open-leaf-left"
    elif "has length" in err or "needles" in err:
        cls = "target-missed"
    elif "not a derivation tree" in err:
        cls = "invalid-tree"
    else:
        cls = "other"
    return ("%s/%s" % (r["name"], cls), "%s(%s): %s" % (r["name"], r["args"], err[:400]))


def main(tier, only):
    run = common.Run("C14", tier, "other", [common.src_range("src/isla/solver.py", "create_fixed_length_tree"),
                                             common.src_range("src/isla/isla_predicates.py", "count"),
                                             common.src_range("src/isla/isla_predicates.py", "find_expansion_without_needle")])
    nmax, L, D, to = (8, 4, 2, 240) if tier == "quick" else (14, 6, 3, 2400)
    cfgs = [dict(tag="", env={"VERIF_NMAX": str(nmax), "VERIF_L": str(L), "VERIF_D": str(D)}, only=["fixed_length"], timeout=to)]
    for t in range(-1, 5):
        cfgs.append(dict(tag="target%d" % t, env={"VERIF_L": str(L), "VERIF_TARGET": str(t)}, only=["count"], timeout=to))
    run.bounds = dict(fixed_length="target length 0..%d (symbolic), 5 grammars (one with indirectly nullable nonterminals) x every nonterminal as start, every periodic random stream of period %d" % (nmax, D),
                      count="partial trees decodable from <= %d choices of a list grammar with two independent needle positions, target -1..4 (string and tree numerals), 3 needles" % L)
    run.engines = dict(crosshair="crosshair-tool 0.0.110 on z3 4.11.2")
    run.trusted = ["tree validator, needle counting and reachability (GrammarGraph.reachable) in the harness"]
    run.assumptions = ["[decoder] for count; the target length / count, start nonterminal and needle are symbolic integers enumerated by the solver",
                       "fixed length: only soundness of a returned tree is claimed (None is always allowed)"]
    run.outside = ["larger targets, other grammars, numeric model-value parsing (C02)"]
    res = xh.check_many("C14", HARNESS, cfgs, twin_timeout=120)
    xh.record(run, res, "", keyfn)
    return run.finish(
        "Real create_fixed_length_tree with symbolic target length: a returned tree is closed, valid for the start nonterminal and its string has "
        "exactly the requested length. Real count(): True/False verdicts agree with the needle count and reachability from open leaves; a proposed "
        "completion has exactly the requested number of needles, no open leaf that can still produce one, and is a tree for the same nonterminal.")


def replay(d):
    return xh.replay_file(d)
