"""C10 harness: the real EarleyParser / ISLaSolver.parse on every string over an alphabet abstraction of the
grammar, up to a length bound, against an independent fixpoint recogniser.

Input = symbolic List[int] of indices into ALPHA = (every character occurring in a terminal of the grammar)
+ one fresh character standing for every other character (the parser compares input characters with grammar
characters by == only).  VERIF_G selects the grammar, VERIF_N the length bound, VERIF_FIRST fixes the first
index (partition over processes; -1 = the empty string only... see _part).
"""
import itertools
import os
from typing import List

import vlib

vlib.import_isla()

from isla.parser import EarleyParser  # noqa: E402
from isla.derivation_tree import DerivationTree  # noqa: E402
from isla.solver import ISLaSolver  # noqa: E402

GRAMMARS = [
    # 0 indirectly nullable nonterminal declared before its parts, used twice in a row
    ("<start>", {"<start>": ["<A><A>x"], "<A>": ["<B><C>"], "<B>": ["", "b"], "<C>": ["", "c"]}),
    # 1 left recursion
    ("<start>", {"<start>": ["<e>"], "<e>": ["<e>+<t>", "<t>"], "<t>": ["a", "b"]}),
    # 2 right recursion, multi-character terminals
    ("<start>", {"<start>": ["<s>"], "<s>": ["<a>;<s>", "<a>"], "<a>": ["x=y", "x=<a>"]}),
    # 3 ambiguity
    ("<start>", {"<start>": ["<e>"], "<e>": ["<e><e>", "a"]}),
    # 4 multi-character terminals sharing prefixes, start rule with three symbols
    ("<start>", {"<start>": ["<k>=<v>"], "<k>": ["k", "kk"], "<v>": ["ab", "a"]}),
    # 5 nullable chains (vlib.NULLABLE_GRAMMAR)
    ("<start>", vlib.NULLABLE_GRAMMAR),
    # 6 entry at a non-start nonterminal
    ("<e>", {"<start>": ["<e>"], "<e>": ["<e>+<t>", "<t>"], "<t>": ["a", "(<e>)"]}),
    # 7 <start> with several alternatives
    ("<start>", {"<start>": ["<a>", "<b>x"], "<a>": ["x"], "<b>": ["y", ""]}),
    # 8 <start> reachable from itself
    ("<start>", {"<start>": ["<A>"], "<A>": ["(<start>)", "x"]}),
    # 9 epsilon-only and empty-string language corner
    ("<start>", {"<start>": ["<o><o>"], "<o>": ["", "a<o>"]}),
    # 10 several start alternatives, two of them unit alternatives
    ("<start>", {"<start>": ["<word>", "<number>", "<word>=<number>"], "<word>": ["a", "aa"], "<number>": ["1", "12"]}),
]
GI = int(os.environ.get("VERIF_G", "0"))
N = int(os.environ.get("VERIF_N", "3"))
FIRST = int(os.environ.get("VERIF_FIRST", "-2"))     # -2: no partition, -1: only the empty string
ENTRY, G = GRAMMARS[GI]


def _alphabet(g):
    chars = sorted({ch for alts in g.values() for alt in alts for tok in vlib.split_expansion(alt)
                    if not vlib.is_nonterminal(tok) for ch in tok})
    fresh = next(c for c in "#@!~" if c not in chars)
    return chars + [fresh]


ALPHA = _alphabet(G)
K = len(ALPHA)
CAN = {n: [[t for t in vlib.split_expansion(a)] for a in alts] for n, alts in G.items()}

# ---------------------------------------------------------------- reference recogniser (fixpoint, no chart)


def derives(sym: str, s: str) -> bool:
    n = len(s)
    D = {}   # (nonterminal, i, j) -> True

    def seq(symbols, i, j) -> bool:
        pos = {i}
        for x in symbols:
            nxt = set()
            for p in pos:
                if x in CAN:
                    for q in range(p, j + 1):
                        if D.get((x, p, q)):
                            nxt.add(q)
                else:
                    if s.startswith(x, p) and p + len(x) <= j:
                        nxt.add(p + len(x))
            pos = nxt
            if not pos:
                return False
        return j in pos

    changed = True
    while changed:
        changed = False
        for nt, alts in CAN.items():
            for i in range(n + 1):
                for j in range(i, n + 1):
                    if D.get((nt, i, j)):
                        continue
                    if any(seq(alt, i, j) for alt in alts):
                        D[(nt, i, j)] = True
                        changed = True
    return bool(D.get((sym, 0, n)))


PARSER = EarleyParser(G, start_symbol=ENTRY)
SOLVER = ISLaSolver(G) if "<start>" in G else None


def _ok(idx: List[int]) -> bool:
    if not all(0 <= i < K for i in idx):
        return False
    if FIRST == -2:
        return True
    if FIRST == -1:
        return len(idx) == 0
    return len(idx) >= 1 and idx[0] == FIRST


def _check_tree(pt, s: str, root: str) -> bool:
    t = DerivationTree.from_parse_tree(pt)
    return t.value == root and vlib.valid_tree(G, t, allow_open=False) and vlib.tree_string(t) == s and str(t) == s


def _parse_ok(ix) -> bool:
    s = "".join(ALPHA[i] for i in ix)
    member = derives(ENTRY, s)
    try:
        trees = list(itertools.islice(PARSER.parse(s), 3))
    except SyntaxError:
        ok = not member
    else:
        ok = member and len(trees) >= 1 and all(_check_tree(t, s, ENTRY) for t in trees)
    if not ok:
        return False
    # call history on the SAME parser object: a (failing or only partially consumed) parse_on for another nonterminal must not
    # change what a following parse() decides
    for nt in G:
        try:
            first = next(PARSER.parse_on(s, nt), None)
            if first is not None and not derives(nt, s):
                raise AssertionError("parse_on(%r, %s) returned a tree although the string is not in L(%s)" % (s, nt, nt))
        except SyntaxError:
            if derives(nt, s):
                raise AssertionError("parse_on(%r, %s) raised SyntaxError although the string is in L(%s)" % (s, nt, nt))
        try:
            again = next(iter(PARSER.parse(s)), None)
            got = again is not None
        except SyntaxError:
            got = False
        if got != member:
            raise AssertionError("after parse_on(%r, %s) the same parser object %s %r, membership in L(%s) is %s" % (
                s, nt, "accepts" if got else "rejects", s, ENTRY, member))
        if got and not _check_tree(again, s, ENTRY):
            raise AssertionError("after parse_on(%r, %s) parse() returned a tree that is not rooted at %s / does not spell the input" % (s, nt, ENTRY))
    return True


def _solver_parse_ok(ix) -> bool:
    s = "".join(ALPHA[i] for i in ix)
    member = derives(ENTRY, s)
    try:
        t = SOLVER.parse(s, nonterminal=ENTRY, skip_check=True, silent=True)
    except SyntaxError:
        return not member
    return member and t.value == ENTRY and vlib.valid_tree(G, t, allow_open=False) and vlib.tree_string(t) == s


def _solver_parse_every_nonterminal_ok(ix) -> bool:
    """ISLaSolver.parse(inp, nonterminal=N) for EVERY nonterminal N of the grammar"""
    s = "".join(ALPHA[i] for i in ix)
    for nt in G:
        member = derives(nt, s)
        try:
            t = SOLVER.parse(s, nonterminal=nt, skip_check=True, silent=True)
        except SyntaxError:
            if member:
                raise AssertionError("parse(%r, nonterminal=%s) raised SyntaxError although the string is in L(%s)" % (s, nt, nt))
            continue
        if not member:
            raise AssertionError("parse(%r, nonterminal=%s) returned %r although the string is not in L(%s)" % (s, nt, str(t), nt))
        if t.value != nt or not vlib.valid_tree(G, t, allow_open=False) or vlib.tree_string(t) != s:
            raise AssertionError("parse(%r, nonterminal=%s) returned a tree rooted at %s spelling %r" % (s, nt, t.value, str(t)))
    return True


def h_solver_parse_nt(idx: List[int]) -> bool:
    """
    pre: len(idx) <= N
    pre: _ok(idx)
    post: _
    """
    return vlib.untraced(_solver_parse_every_nonterminal_ok, [int(i) for i in vlib.realize(idx)])


def h_parse(idx: List[int]) -> bool:
    """
    pre: len(idx) <= N
    pre: _ok(idx)
    post: _
    """
    return vlib.untraced(_parse_ok, [int(i) for i in vlib.realize(idx)])


def h_solver_parse(idx: List[int]) -> bool:
    """
    pre: len(idx) <= N
    pre: _ok(idx)
    post: _
    """
    return vlib.untraced(_solver_parse_ok, [int(i) for i in vlib.realize(idx)])
