"""C18 harness: check, parse and repair agree with the constraint and with each other.

One long-lived ISLaSolver per constraint (so that state carried between calls is exercised); the solver enumerates
the closed trees of the small assignment grammar (codes) and a few non-member strings; for each input every
constraint is checked through check(tree), check(str), parse(str, skip_check=True) followed by check(str) and
parse(str) on the SAME solver object, and repair() of valid inputs.  Oracle: checks/refsem.py.
"""
import os
import random
import signal
from typing import List

import vlib

vlib.import_isla()

from isla.solver import ISLaSolver, SemanticError  # noqa: E402
from isla.language import parse_isla  # noqa: E402
import refsem  # noqa: E402
import h_c03  # tree numbering  # noqa: E402

G = vlib.LANG3_GRAMMAR
CONSTRAINTS = [
    'forall <var> v in start: (not (= v "c"))',
    'exists <digit> d in start: (= d "1")',
    'not (forall <digit> d in start: (= d "0"))',
    'forall <assgn> a="{<var> l} := {<rhs> r}" in start: (not (= l r))',
    'exists <assgn> a="{<var> l} := {<var> r}" in start: (= l r)',
    'forall <assgn> a in start: exists <digit> d in a: (= (str.to.int d) 1)',
    'exists <assgn> decl: (before(decl, <assgn>) and <assgn>.<rhs>.<var> = decl.<var>)' if False else
    'forall <assgn> a="<var> := {<var> r}" in start: exists <assgn> b="{<var> l} := <rhs>" in start: (before(b, a) and (= l r))',
    'count(start, "<assgn>", "2")',
    'exists <stmt> s in start: (str.contains s ";")',
    'true',
]
from isla.isla_predicates import STANDARD_STRUCTURAL_PREDICATES, STANDARD_SEMANTIC_PREDICATES  # noqa: E402
PARSED = [parse_isla(c, G, STANDARD_STRUCTURAL_PREDICATES, STANDARD_SEMANTIC_PREDICATES) for c in CONSTRAINTS]
SOLVERS = [ISLaSolver(G, c) for c in CONSTRAINTS]
NON_MEMBERS = ["", "a", "a := ", "a := 2", "a := b ;", "d := 1", "a := 1 ; ", "a:=1", " a := 1"]
ND = int(os.environ.get("VERIF_ND", "3"))
PART = os.environ.get("VERIF_PART", "")
os.environ.setdefault("VERIF_STMTS", "2")


REPAIR = os.environ.get("VERIF_REPAIR", "1") == "1"
_SLOW = object()


class _Alarm(BaseException):
    pass


def _on_alarm(signum, frame):
    raise _Alarm()


def _guarded(fn):
    """repair / mutate run the solver loop: a wall-clock guard abandons a call that takes longer than 20 s"""
    signal.signal(signal.SIGALRM, _on_alarm)
    signal.setitimer(signal.ITIMER_REAL, 20, 1.0)
    try:
        return fn()
    except _Alarm:
        return _SLOW
    finally:
        signal.setitimer(signal.ITIMER_REAL, 0)


def _must_be_valid(r, k, what):
    if r.is_open() or not vlib.valid_tree(G, r, allow_open=False) or r.value != "<start>":
        raise AssertionError("%s, which is not a closed derivation tree of the grammar" % what)
    if not refsem.ref_eval(PARSED[k], r, G):
        raise AssertionError("%s, which violates the constraint" % what)


def _one(t, s, k):
    sol, want = SOLVERS[k], refsem.ref_eval(PARSED[k], t, G)
    what = "constraint #%d %r, input %r" % (k, CONSTRAINTS[k], s)
    try:
        if sol.check(t) != want:
            raise AssertionError("%s: check(tree) = %s, specification %s" % (what, not want, want))
        if sol.check(s) != want:
            raise AssertionError("%s: check(str) = %s, specification %s" % (what, not want, want))
        u = sol.parse(s, skip_check=True)
        if str(u) != s or not vlib.valid_tree(G, u, allow_open=False):
            raise AssertionError("%s: parse(skip_check=True) returned %r" % (what, str(u)))
        if sol.check(s) != want:
            raise AssertionError("%s: after parse(skip_check=True), check(str) = %s, specification %s" % (what, not want, want))
        try:
            v = sol.parse(s)
            if not want:
                raise AssertionError("%s: parse() returned a tree although the constraint is violated" % what)
            if str(v) != s:
                raise AssertionError("%s: parse() returned %r" % (what, str(v)))
        except SemanticError:
            if want:
                raise AssertionError("%s: parse() raised SemanticError although the constraint holds" % what)
        if sol.check(u) != want:
            raise AssertionError("%s: check(parsed tree) disagrees with check(str)" % what)
        if want:
            for inp in (s, t):
                r = sol.repair(inp)
                got = r.value_or(None)
                if got is None or str(got) != s:
                    raise AssertionError("%s: repair() of a valid input returned %r" % (what, None if got is None else str(got)))
        elif REPAIR:
            # repair of an input that violates the constraint: nothing, or a valid input
            random.seed(k)
            got = _guarded(lambda: sol.repair(t).value_or(None))
            if got is not _SLOW and got is not None:
                _must_be_valid(got, k, "%s: repair() returned %r" % (what, str(got)))
        if REPAIR:
            # every tree returned by mutate satisfies the constraint (whether or not the input does)
            random.seed(k + 1)
            got = _guarded(lambda: sol.mutate(t, min_mutations=1, max_mutations=2))
            if got is not _SLOW:
                _must_be_valid(got, k, "%s: mutate() returned %r" % (what, str(got)))
    except AssertionError:
        raise
    except Exception as e:
        raise AssertionError("%s: raised %s: %s" % (what, type(e).__name__, str(e)[:100]))


def _tree(ds) -> bool:
    t = vlib.mk_tree(h_c03.decode(h_c03._code(ds), allow_open=False))
    s = str(t)
    for k in range(len(CONSTRAINTS)):
        _one(t, s, k)
    return True


def _ok(ds: List[int]) -> bool:
    if len(ds) != ND or not all(0 <= d < 8 for d in ds):
        return False
    if PART:
        i, m = (int(x) for x in PART.split("/"))
        return sum(ds) % m == i
    return True


def h_members(ds: List[int]) -> bool:
    """
    pre: _ok(ds)
    post: _
    """
    return vlib.untraced(_tree, [int(d) for d in vlib.realize(ds)])


def _non_member(i, k) -> bool:
    s, sol = NON_MEMBERS[i], SOLVERS[k]
    what = "constraint #%d, non-member %r" % (k, s)
    try:
        if sol.check(s) is not False:
            raise AssertionError("%s: check(str) is not False" % what)
        for skip in (False, True):
            try:
                sol.parse(s, skip_check=skip, silent=True)
                raise AssertionError("%s: parse(skip_check=%s) did not raise SyntaxError" % (what, skip))
            except SyntaxError:
                pass
    except AssertionError:
        raise
    except Exception as e:
        raise AssertionError("%s: raised %s: %s" % (what, type(e).__name__, str(e)[:100]))
    return True


def h_non_members(v: List[int]) -> bool:
    """
    pre: len(v) == 2 and 0 <= v[0] < len(NON_MEMBERS) and 0 <= v[1] < len(CONSTRAINTS)
    post: _
    """
    w = [int(x) for x in vlib.realize(v)]
    return vlib.untraced(_non_member, w[0], w[1])
