"""C16 harness: derivation-tree operations keep paths, strings, openness and identity consistent.

A symbolic choice vector is decoded into a (possibly open) derivation tree of a small grammar; for that
tree EVERY single operation of the public API family is applied (replace_path at every path with every
replacement variant, substitute of every node, every expand_one_step result; with VERIF_DEPTH=2 once more
on every result) and the representation invariants are checked after each step.  VERIF_G: 0 = statement
grammar, 1 = grammar with a node of VERIF_WIDE children (any number of children per node).
"""
import os
from typing import List

import vlib

vlib.import_isla()

from isla.derivation_tree import DerivationTree  # noqa: E402

GI = int(os.environ.get("VERIF_G", "0"))
L = int(os.environ.get("VERIF_L", "4"))
DEPTH = int(os.environ.get("VERIF_DEPTH", "1"))
WIDE = int(os.environ.get("VERIF_WIDE", "40"))
# partition of the choice vectors over processes: VERIF_PREFIX="0,1" (vectors starting with 0,1) or
# VERIF_NOTPREFIX="0,0;0,1;0,2" (all other vectors)
def _pl(s):
    return [int(x) for x in s.split(",") if x != ""]


PREFIX = _pl(os.environ["VERIF_PREFIX"]) if "VERIF_PREFIX" in os.environ else None
NOTPREFIX = [_pl(x) for x in os.environ.get("VERIF_NOTPREFIX", "").split(";") if x != ""]
GRAMMARS = [
    {"<start>": ["<s>"], "<s>": ["<a>;<s>", "<a>"], "<a>": ["<v>=<v>", "<v>"], "<v>": ["x", "y", ""]},
    {"<start>": ["<w>"], "<w>": ["<v>" * WIDE, "<v>-<w>"], "<v>": ["x", "yy", ""]},
]
G = GRAMMARS[GI]
CAN = vlib.canonical_grammar(G)
MAXC = vlib.max_choice(G, True)


def _ok(ch: List[int]) -> bool:
    if not all(0 <= c < MAXC for c in ch):
        return False
    if PREFIX is not None:
        return len(ch) >= len(PREFIX) and all(ch[i] == PREFIX[i] for i in range(len(PREFIX)))
    for pf in NOTPREFIX:
        if len(ch) >= len(pf) and all(ch[i] == pf[i] for i in range(len(pf))):
            return False
    return True


# ---------------------------------------------------------------- reference views (own traversal)

def nodes(t):
    out = []

    def rec(n, p):
        out.append((p, n))
        for i, c in enumerate(n.children or ()):
            rec(c, p + (i,))
    rec(t, ())
    return out


def struct_eq(a, b) -> bool:
    if a.value != b.value or (a.children is None) != (b.children is None):
        return False
    if a.children is None:
        return True
    return len(a.children) == len(b.children) and all(struct_eq(x, y) for x, y in zip(a.children, b.children))


def clone(t):
    return DerivationTree(t.value, None if t.children is None else [clone(c) for c in t.children])


def _same(a, b, identity):
    return a is b if identity else (a.id == b.id and a.value == b.value)


def inv(t, identity: bool = True) -> str:
    """'' if all representation invariants hold, else a description.  identity=False: node objects may be shared
    with an equal tree (DerivationTree caches paths()/trie() per equal tree), compare ids and labels instead."""
    ns = nodes(t)
    leaves = [(p, n) for p, n in ns if not n.children]
    want_open = any(n.children is None for _, n in ns)
    if t.is_open() != want_open or t.is_complete() == want_open:
        return "is_open()=%s but open leaf present=%s" % (t.is_open(), want_open)
    for p, n in ns:   # cached flags of subtrees, too
        if n.is_open() != any(m.children is None for _, m in nodes(n)):
            return "is_open of subtree %s wrong" % (p,)
    s_ref = vlib.tree_string(t)
    if str(t) != s_ref or t.to_string(show_open_leaves=True) != s_ref:
        return "str %r != leaves %r" % (str(t), s_ref)
    closed_ref = "".join(n.value for p, n in leaves if n.children is not None and not vlib.is_nonterminal(n.value))
    if t.to_string() != closed_ref:
        return "to_string() %r != terminal leaves %r" % (t.to_string(), closed_ref)
    ps = t.paths()
    if [p for p, _ in ps] != [p for p, _ in ns] or any(not _same(a, b, identity) for (_, a), (_, b) in zip(ps, ns)):
        return "paths() disagrees with the tree"
    if len(t) != len(ns):
        return "len %d != %d nodes" % (len(t), len(ns))
    ids = [n.id for _, n in ns]
    uniq = len(set(ids)) == len(ids)
    for p, n in ns:
        if not _same(t.get_subtree(p), n, identity):
            return "get_subtree(%s) is a different node" % (p,)
        if not t.is_valid_path(p):
            return "is_valid_path(%s) false" % (p,)
        if uniq and (t.find_node(n) != p or t.find_node(n.id) != p):
            return "find_node disagrees at %s: %s" % (p, t.find_node(n))
    if t.is_valid_path((len(t.children or ()),)) or t.get_subtree((0,) * 30) is not None and False:
        return "is_valid_path accepts a child index past the end"
    trie = t.trie()
    keys = trie.keys()
    if sorted(keys) != sorted(p for p, _ in ns):
        missing = [p for p, _ in ns if p not in set(keys)]
        return "trie keys differ from paths: %d paths, %d keys, missing e.g. %s" % (len(ns), len(keys), missing[:2])
    for p, n in ns:
        v = trie[p]
        if v[0] != p or not _same(v[1], n, identity):
            return "trie[%s] -> %s" % (p, v[0])
        sub = trie.get_subtrie(p)
        want = sorted(q[len(p):] for q, _ in ns if q[:len(p)] == p)
        if sorted(sub.keys()) != want:
            return "sub-trie at %s has keys %s, want %s" % (p, sorted(sub.keys())[:4], want[:4])
    # the path-indexed view must not be disturbed by handing out sub-views (the tree caches ONE trie object)
    if sorted(t.trie().keys()) != sorted(p for p, _ in ns):
        return "after requesting sub-tries the full trie lists %d keys for %d paths" % (len(t.trie().keys()), len(ns))
    if len(ns) >= 3:
        p1, p2 = ns[1][0], ns[-1][0]
        s1 = t.trie().get_subtrie(p1)
        k1 = sorted(s1.keys())
        s2 = t.trie().get_subtrie(p2)
        if sorted(s1.keys()) != k1 or sorted(s1.keys()) != sorted(q[len(p1):] for q, _ in ns if q[:len(p1)] == p1):
            return "a sub-trie obtained earlier changed after another sub-trie was requested (%s, %s)" % (p1, p2)
        if sorted(s2.keys()) != sorted(q[len(p2):] for q, _ in ns if q[:len(p2)] == p2):
            return "sub-trie at %s wrong" % (p2,)
        if sorted(t.trie().keys()) != sorted(p for p, _ in ns):
            return "full trie changed after sub-tries were requested"
    if [p for p, _ in t.leaves()] != [p for p, _ in leaves]:
        return "leaves() disagrees"
    if [p for p, _ in t.open_leaves()] != [p for p, n in ns if n.children is None]:
        return "open_leaves() disagrees"
    c = clone(t)
    if not t.structurally_equal(c) or t.structural_hash() != c.structural_hash():
        return "clone not structurally equal / different structural hash"
    return ""


def same_struct_law(a, b) -> str:
    se = a.structurally_equal(b)
    if se != struct_eq(a, b):
        return "structurally_equal=%s but reference says %s (%s vs %s)" % (se, struct_eq(a, b), a, b)
    if se and a.structural_hash() != b.structural_hash():
        return "structurally equal but different structural hashes"
    return ""


def variants(label):
    """replacement trees for a node labelled `label`"""
    if label not in CAN:
        return [DerivationTree(label, ())]
    out = [DerivationTree(label, None)]
    for alt in CAN[label][:2]:
        out.append(vlib.mk_tree((label, [(t, None) if t in CAN else t for t in alt])))
    best = vlib.min_closing(G)
    out.append(vlib.mk_tree(vlib.decode_tree(G, label, [], allow_open=False)))
    return out


def step(t, depth) -> str:
    r = inv(t)
    if r:
        return "invariant on %r: %s" % (str(t), r)
    if depth == 0:
        return ""
    before = [(p, n.id, n.value, n.children is None) for p, n in nodes(t)]
    s_before = str(t)
    results = []
    for p, n in nodes(t):
        for v in variants(n.value):
            t2 = t.replace_path(p, v)
            if t2.get_subtree(p) is not v:
                return "replace_path(%s): new subtree not at the path" % (p,)
            # everything off the path is the identical object; ancestors keep id and label
            for q, m in nodes(t):
                if q[:len(p)] == p:
                    continue
                m2 = t2.get_subtree(q)
                if p[:len(q)] == q:
                    if m2 is None or m2.id != m.id or m2.value != m.value:
                        return "replace_path(%s): ancestor %s changed" % (p, q)
                elif m2 is not m:
                    return "replace_path(%s): unrelated subtree %s changed" % (p, q)
            results.append(("replace_path(%s,%s)" % (p, v), t2))
            # retain_id=True: the node at the path keeps the identity of the node it replaces (label / children of the replacement)
            t4 = t.replace_path(p, v, retain_id=True)
            m4 = t4.get_subtree(p)
            if m4 is None or m4.id != n.id or m4.value != v.value or t4.find_node(n.id) != p:
                return "replace_path(%s, retain_id=True): the node at the path has id %s instead of %s" % (p, None if m4 is None else m4.id, n.id)
            if not struct_eq(t4, t2):
                return "replace_path(%s, retain_id=True) differs structurally from replace_path" % (p,)
            r4 = inv(t4, identity=False)
            if r4:
                return "replace_path(%s, retain_id=True): %s" % (p, r4)
            t3 = t.substitute({n: v})
            if not struct_eq(t2, t3) or [x.id for _, x in nodes(t2)] != [x.id for _, x in nodes(t3)]:
                return "substitute({node at %s: %s}) differs from replace_path" % (p, v)
            r = same_struct_law(t, t2)
            if r:
                return r
    # substitution maps with two keys, including a node together with one of its descendants
    ns_all = nodes(t)
    for i, (p, n) in enumerate(ns_all):
        for q, m in ns_all[i + 1:]:
            for va, vb in ((variants(n.value)[-1], variants(m.value)[0]), (variants(n.value)[0], variants(m.value)[-1])):
                mapping = {n: va, m: vb}
                want = t
                for key, repl in mapping.items():      # reference: one replacement after the other, by id, skipping vanished keys
                    pos = next((pp for pp, x in nodes(want) if x.id == key.id), None)
                    if pos is not None:
                        want = want.replace_path(pos, repl)
                got = t.substitute(mapping)
                if not struct_eq(got, want) or [x.id for _, x in nodes(got)] != [x.id for _, x in nodes(want)]:
                    return "substitute({%s: .., %s: ..}) = %r, sequential replacement gives %r" % (p, q, str(got), str(want))
    n_open = sum(1 for _, n in nodes(t) if n.children is None)
    # expand_one_step returns the product over all open leaves: only for trees with few open leaves
    for t2 in (t.expand_one_step(CAN) if n_open <= 4 else []):
        if not t.is_prefix(t2):
            return "expand_one_step result %r is not an extension of %r" % (str(t2), str(t))
        for p, n in nodes(t):
            m = t2.get_subtree(p)
            if m is None or m.id != n.id or m.value != n.value:
                return "expand_one_step changed node %s" % (p,)
        if not t2.has_unique_ids():
            return "expand_one_step produced duplicate node ids in %r" % str(t2)
        results.append(("expand_one_step", t2))
    if [(p, n.id, n.value, n.children is None) for p, n in nodes(t)] != before or str(t) != s_before:
        return "operations mutated the original tree"
    for name, t2 in results:
        r = step(t2, depth - 1)
        if r:
            return "after %s: %s" % (name, r)
    return ""


def _run(ch) -> bool:
    t = vlib.mk_tree(vlib.decode_tree(G, "<start>", ch, allow_open=True, close_rest=(GI == 1)))
    r = step(t, DEPTH)
    if r:
        raise AssertionError(r)
    return True


def h_ops(ch: List[int]) -> bool:
    """
    pre: len(ch) <= L
    pre: _ok(ch)
    post: _
    """
    return vlib.untraced(_run, [int(c) for c in vlib.realize(ch)])


# ---------------------------------------------------------------- trie key codec (genuinely symbolic: unbounded child indices)

from isla.trie import path_to_trie_key, trie_key_to_path, SubtreesTrie  # noqa: E402


def _accepted_max() -> int:
    """largest code point the real SubtreesTrie's datrie alphabet accepts (probed on the real object)"""
    best = -1
    for c in range(1, 400):
        t = SubtreesTrie().trie
        k = chr(1) + chr(c)
        t[k] = 1
        if k in t:
            best = c
    return best


A_MAX = _accepted_max()
NP = int(os.environ.get("VERIF_NP", "4"))


def _nn(p: List[int]) -> bool:
    return all(x >= 0 for x in p)


def h_codec_roundtrip(p: List[int], q: List[int]) -> bool:
    """
    pre: len(p) <= NP and len(q) <= NP
    pre: _nn(p) and _nn(q)
    pre: all(x < 1100000 for x in p) and all(x < 1100000 for x in q)
    post: _
    """
    p1, q1 = tuple(p), tuple(q)
    kp, kq = path_to_trie_key(p1), path_to_trie_key(q1)
    if trie_key_to_path(kp) != p1:
        return False
    is_pref = len(p1) <= len(q1) and q1[:len(p1)] == p1
    return kq.startswith(kp) == is_pref


def h_codec_alphabet(p: List[int]) -> bool:
    """
    pre: len(p) <= NP
    pre: _nn(p)
    pre: all(x < 1100000 for x in p)
    post: _
    """
    # every character of the key must be storable in the trie, otherwise datrie silently drops the key
    return all(ord(ch) <= A_MAX for ch in path_to_trie_key(tuple(p)))
