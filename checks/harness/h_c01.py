"""C01 / C02 harness: ISLaSolver.solve() over a configuration space.

The solver (CrossHair) enumerates configuration vectors: constraint (portfolio), free/SMT instantiation limits, optimized
Z3 queries on/off, unique trees on/off, tree insertion methods, random seed.  For each configuration the real solver is
created and solve() is called repeatedly (natively):
 C01  every returned tree is closed, a derivation tree of the grammar rooted at <start>, its string re-parses, and it
      satisfies the constraint under the reference semantics (checks/refsem.py) - for every prefix of the solution sequence;
 C02  every call returns a tree or raises StopIteration / TimeoutError, nothing else; once one of them has been raised, every
      later call raises the same.  With a timeout configured, isla.solver's clock is replaced by a stub whose instants are
      driven by a (solver-enumerated) vector of increments.
"""
import os
import random
import signal
import time as _time
from typing import List

import vlib

vlib.import_isla()

import isla.solver as S  # noqa: E402
from isla.language import parse_isla  # noqa: E402
from isla.isla_predicates import STANDARD_STRUCTURAL_PREDICATES, STANDARD_SEMANTIC_PREDICATES  # noqa: E402
import refsem  # noqa: E402

G = {
    "<start>": ["<stmt>"],
    "<stmt>": ["<assgn> ; <stmt>", "<assgn>"],
    "<assgn>": ["<var> := <rhs>"],
    "<rhs>": ["<var>", "<num>", "<pnum>"],
    "<pnum>": ["+<digit>", "0<digit><digit>"],
    "<num>": ["<digit><num>", "<digit>"],
    "<var>": ["a", "b", "c"],
    "<digit>": list("0123456789"),
}
CONSTRAINTS = [
    'forall <assgn> a="{<var> l} := {<rhs> r}" in start: (not (= l r))',
    'forall <assgn> a="<var> := {<var> r}" in start: exists <assgn> d="{<var> l} := <rhs>" in start: (before(d, a) and (= l r))',
    'exists <num> n in start: (> (str.to.int n) 17)',
    'forall <num> n in start: ((>= (str.to.int n) 5) and (<= (str.to.int n) 12))',
    'forall <num> n in start: (= (str.len n) 2)',
    'count(start, "<assgn>", "3")',
    'exists int k: (count(start, "<var>", k) and (>= (str.to.int k) 3))',
    '(forall <var> v in start: (= v "a")) and (exists <num> n in start: (= n "7"))',
    'exists <assgn> a in start: exists <assgn> b in start: (before(a, b) and (= a b))',
    'forall <num> n in start: (str.in_re n (re.++ (re.range "1" "9") (re.* (re.range "0" "9"))))',
    'exists <num> n in start: exists <num> m in start: (= (str.to.int n) (+ (str.to.int m) 1))',
    'forall <rhs> r in start: (str.prefixof "1" r)',
    'false',
    'exists <stmt> s in start: (= (str.len s) 12)',
    'count(start, "<stmt>", "3")',
    '(exists <num> n in start: (= n "7")) and (forall <num> m in start: (= (str.len m) 1))',
    '(forall <num> n in start: (str.in_re n (re.+ (str.to_re "11")))) and (forall <digit> d in start: (= d "1"))',
    ('forall <assgn> a="{<var> l} := {<var> r}" in start: (= l r)', "<assgn>"),
    ('exists <rhs> r="{<digit> d}{<num> n}" in start: (= d "7")', "<rhs>"),
    ('forall <stmt> s="{<assgn> a} ; <stmt>" in start: (str.prefixof "b" a)', "<stmt>"),
    ('(str.in_re start (re.+ (str.to_re "aa"))) and (forall <char> c in start: (= c "a"))', "<start>", "word"),
    ('(= (str.len start) 4) and (exists <char> c in start: (= c "b"))', "<start>", "word"),
    # signed / zero-padded number format without a plain "0": only the exception contract is checked for these (Z3 itself
    # evaluates str.to.int("+0") to -1, the reference semantics cannot judge them)
    'exists <pnum> p in start: (= (str.to.int p) 0)',
    # Boolean structure INSIDE one SMT atom (the solver normalises negations within atoms separately from ISLa-level ones)
    ('forall <var> v in start: (not (or (= v "a") (= v "b")))', "<assgn>"),
    ('forall <var> v in start: (not (or (= v "a") (= v "b") (= v "c")))', "<assgn>"),      # unsatisfiable
]
C02_ONLY = {22}
# an entry may be (constraint, start_symbol): the solver is then asked for trees rooted at that nonterminal
WORD = {"<start>": ["<word>"], "<word>": ["<char><word>", "<char>"], "<char>": ["a", "b", "c"]}
GRAMMAR_OF = [(WORD if (isinstance(c, tuple) and len(c) > 2 and c[2] == "word") else G) for c in CONSTRAINTS]
MANY = [isinstance(c, tuple) for c in CONSTRAINTS]      # cheap constraints: more solutions are examined
START = [c[1] if isinstance(c, tuple) else "<start>" for c in CONSTRAINTS]
CONSTRAINTS = [c[0] if isinstance(c, tuple) else c for c in CONSTRAINTS]
PARSED = [parse_isla(c, GRAMMAR_OF[i], STANDARD_STRUCTURAL_PREDICATES, STANDARD_SEMANTIC_PREDICATES) for i, c in enumerate(CONSTRAINTS)]
LIMITS = [1, 3, 10]
NSOL = int(os.environ.get("VERIF_NSOL", "5"))
CALL_LIMIT_S = int(os.environ.get("VERIF_CALL_LIMIT", "25"))
FIX = os.environ.get("VERIF_FIX", "")
FIXED = dict((int(a), int(b)) for a, b in (x.split("=") for x in FIX.split(",") if x))
SETS = {}
for part in os.environ.get("VERIF_SETS", "").split(";"):
    if part:
        i, vals = part.split("=")
        SETS[int(i)] = [int(x) for x in vals.split(",")]
RANGES = [len(CONSTRAINTS), 3, 3, 2, 2, 8, 3, 2]
TIE = os.environ.get("VERIF_TIE", "") == "1"    # free and SMT instantiation limits take the same value
MODE = os.environ.get("VERIF_MODE", "both")     # c01: only solution validity; c02: only the exception contract
IGNORED_LOG = os.environ.get("VERIF_IGNORED_LOG", "")


def _ignored(v, why):
    if IGNORED_LOG:
        with open(IGNORED_LOG, "a") as f:
            f.write("%s %s\n" % (list(v), why))
    raise vlib.IgnoreAttempt()


class _Alarm(BaseException):
    """BaseException: must not be swallowed by ISLa's own `except Exception` / returns.safe wrappers"""


def _on_alarm(signum, frame):
    raise _Alarm()


def mk_solver(v, timeout=None):
    ci, fi, si, opt, uniq, methods, seed, unsat = v
    random.seed(seed)
    return S.ISLaSolver(GRAMMAR_OF[ci], CONSTRAINTS[ci], max_number_free_instantiations=LIMITS[fi], max_number_smt_instantiations=LIMITS[si],
                        enable_optimized_z3_queries=bool(opt), enforce_unique_trees_in_queue=bool(uniq), tree_insertion_methods=methods,
                        activate_unsat_support=bool(unsat), timeout_seconds=timeout,
                        **({} if START[ci] == "<start>" else {"start_symbol": START[ci]}))


def check_solution(ci, t, what):
    if t.is_open() or any(n.children is None for _, n in refsem.nodes(t)):
        raise AssertionError("%s returned the open tree %r" % (what, str(t)))
    G = GRAMMAR_OF[ci]
    if t.value != START[ci] or not vlib.valid_tree(G, t, allow_open=False):
        raise AssertionError("%s returned %r, which is not a derivation tree of the grammar rooted at %s" % (what, str(t), START[ci]))
    try:
        vlib.parse_tree(G, str(t), start=START[ci])
    except SyntaxError:
        raise AssertionError("%s returned %r, which is not in the grammar's language" % (what, str(t)))
    try:
        ok = refsem.ref_eval(PARSED[ci], t, G)
    except refsem.RefUndefined:
        return
    if not ok:
        raise AssertionError("%s returned %r, which violates the constraint" % (what, str(t)))


def call(solver):
    """one solve() call under a wall-clock guard: ('tree', t) | ('stop',) | ('timeout',) | ('raise', e)"""
    signal.signal(signal.SIGALRM, _on_alarm)
    # repeating timer: an alarm that fires inside a C callback is lost, the next one a second later is not
    signal.setitimer(signal.ITIMER_REAL, CALL_LIMIT_S, 1.0)
    try:
        return ("tree", solver.solve())
    except StopIteration:
        return ("stop",)
    except TimeoutError:
        return ("timeout",)
    except _Alarm:
        return ("slow",)
    except Exception as e:
        return ("raise", e)
    finally:
        signal.setitimer(signal.ITIMER_REAL, 0)


class _ClockModule:
    """stands in for the `time` module inside isla.solver: only time() is replaced"""

    def __init__(self, clock, real):
        self._clock, self._real = clock, real

    def time(self):
        return self._clock.time()

    def __getattr__(self, name):
        return getattr(self._real, name)


def _with_clock(clock, fn):
    real = S.time
    S.time = _ClockModule(clock, real)
    try:
        return fn()
    finally:
        S.time = real


def _run(v) -> bool:
    # frozen clock: the solver's (and its unsat-support's internal) timeouts depend on the wall clock, which would make
    # verdicts irreproducible; timeouts are the subject of h_timeout, where the clock is driven by the solver
    return _with_clock(Clock([0]), lambda: _run_inner(v))


def _run_inner(v) -> bool:
    ci = v[0]
    what0 = "solve() [constraint #%d %r, free=%d smt=%d optimized=%d unique=%d methods=%d seed=%d unsat_support=%d]" % (
        ci, CONSTRAINTS[ci], LIMITS[v[1]], LIMITS[v[2]], v[3], v[4], v[5], v[6], v[7])
    try:
        solver = mk_solver(v)
    except Exception as e:
        raise AssertionError("creating the solver for constraint #%d raised %s: %s" % (ci, type(e).__name__, str(e)[:100]))
    ended = None
    nsol = max(NSOL, 10) if MANY[ci] else NSOL
    for k in range(nsol + 2):
        r = call(solver)
        what = "call %d of %s" % (k + 1, what0)
        if r[0] == "slow":
            if k == 0:
                _ignored(v, "first solve() call exceeded %d s" % CALL_LIMIT_S)
            break
        if r[0] == "raise":
            if MODE == "c01":
                break      # exceptions are C02's subject
            raise AssertionError("%s raised %s: %s" % (what, type(r[1]).__name__, str(r[1])[:120]))
        if ended is not None:
            if r[0] != ended:
                raise AssertionError("%s: after %s was raised, a later call gave %s" % (what, ended, r[0]))
            continue
        if r[0] == "tree":
            if k < nsol and MODE != "c02" and ci not in C02_ONLY:
                check_solution(ci, r[1], what)
        else:
            ended = r[0]
            if k >= nsol or MODE == "c01":
                break
    return True


def _ok(v: List[int]) -> bool:
    if len(v) != 8:
        return False
    for i, x in enumerate(v):
        if not (0 <= x < RANGES[i]):
            return False
        if i in FIXED and x != FIXED[i]:
            return False
        if i in SETS and x not in SETS[i]:
            return False
    if TIE and v[1] != v[2]:
        return False
    return v[5] >= 1


def _isolated(fn, *args):
    """ISLa's z3_solve changes GLOBAL z3 parameters (parallel.enable, smt.random_seed) after an `unknown`; CrossHair's own
    solver lives in the same process and z3 context, so those two calls are stubbed out while the solver runs."""
    import z3
    orig = z3.set_param

    def guarded(*a, **k):
        if a and a[0] in ("parallel.enable", "smt.random_seed"):
            return None
        return orig(*a, **k)
    z3.set_param = guarded
    try:
        return fn(*args)
    finally:
        z3.set_param = orig


def h_solve(v: List[int]) -> bool:
    """
    pre: _ok(v)
    post: _
    """
    return vlib.untraced(_isolated, _run, [int(x) for x in vlib.realize(v)])


# ---------------------------------------------------------------- timeout with a symbolic clock (C02)

class Clock:
    def __init__(self, incs):
        self.incs = list(incs) or [0]
        self.now = 1000.0
        self.i = 0

    def time(self):
        self.now += [0.0, 0.6, 7.0][self.incs[self.i % len(self.incs)]]
        self.i += 1
        return self.now


def _run_timeout(v, incs, configured) -> bool:
    ci = v[0]

    def body():
        solver = mk_solver(v, timeout=3 if configured else None)
        ended = None
        for k in range(NSOL + 4):
            r = call(solver)
            if r[0] == "slow":
                if k == 0:
                    _ignored(v, "first solve() call exceeded %d s (timeout harness)" % CALL_LIMIT_S)
                break
            what = "call %d with timeout_seconds=%s and clock increments %s [constraint #%d, free=%d smt=%d optimized=%d unique=%d methods=%d seed=%d unsat_support=%d]" % (
                k + 1, 3 if configured else None, incs, ci, LIMITS[v[1]], LIMITS[v[2]], v[3], v[4], v[5], v[6], v[7])
            if r[0] == "raise":
                raise AssertionError("%s raised %s: %s" % (what, type(r[1]).__name__, str(r[1])[:120]))
            if r[0] == "timeout" and not configured:
                raise AssertionError("%s raised TimeoutError although no timeout is configured" % what)
            if ended is not None:
                if r[0] != ended:
                    raise AssertionError("%s: after %s was raised, a later call gave %s" % (what, ended, r[0]))
                continue
            if r[0] != "tree":
                ended = r[0]
        return True
    return _with_clock(Clock(incs), body)


CONFIGURED = int(os.environ.get("VERIF_CONFIGURED", "1"))


def h_timeout(v: List[int], incs: List[int]) -> bool:
    """
    pre: _ok(v)
    pre: 1 <= len(incs) <= 2 and all(0 <= x <= 2 for x in incs)
    post: _
    """
    return vlib.untraced(_isolated, _run_timeout, [int(x) for x in vlib.realize(v)], [int(x) for x in vlib.realize(incs)], CONFIGURED)
