"""C15-O4: helpers.merge_intervals on symbolic integer endpoints (CrossHair)."""
from typing import List

import vlib

vlib.import_isla()

from returns.maybe import Some  # noqa: E402

from isla.helpers import merge_intervals  # noqa: E402


def _mem(x: int, ivs) -> bool:
    return any(a <= x <= b for a, b in ivs)


def h_merge(a1: int, b1: int, a2: int, b2: int, a3: int, b3: int, n: int, x: int) -> bool:
    """
    pre: a1 <= b1 and a2 <= b2 and a3 <= b3
    pre: 1 <= n <= 3
    post: _
    """
    ivs = [(a1, b1), (a2, b2), (a3, b3)][:n]
    # split into two argument lists (the function merges several Maybe lists)
    res = merge_intervals(Some(ivs[:1]), Some(ivs[1:])).unwrap()
    ok_sorted = all(res[i][1] + 1 < res[i + 1][0] for i in range(len(res) - 1))   # sorted, disjoint, non-adjacent
    ok_wf = all(a <= b for a, b in res)
    return ok_sorted and ok_wf and _mem(x, ivs) == _mem(x, res)
