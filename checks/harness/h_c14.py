"""C14 harness: solver helpers that build trees to a target meet that target.

fixed length: real solver.create_fixed_length_tree(start, canonical_grammar, n) with SYMBOLIC target length n,
symbolic start nonterminal and every periodic random stream: result None or a closed valid tree for the
nonterminal whose string has exactly n characters.
count: real isla_predicates.count(graph, in_tree, needle, num) on a decoded partial tree with symbolic target.
"""
import itertools
import os
from typing import List

import vlib

vlib.import_isla()

import h_c12  # Stream / with_stream (random stub)  # noqa: E402
from grammar_graph import gg  # noqa: E402
from isla.derivation_tree import DerivationTree  # noqa: E402
from isla.helpers import canonical  # noqa: E402
from isla.isla_predicates import count  # noqa: E402
from isla.solver import create_fixed_length_tree  # noqa: E402

D = int(os.environ.get("VERIF_D", "2"))
NMAX = int(os.environ.get("VERIF_NMAX", "8"))
L = int(os.environ.get("VERIF_L", "4"))
TARGET = int(os.environ.get("VERIF_TARGET", "-9"))
FIXED = [
    {"<start>": ["<pair>"], "<pair>": ["<item>-<item>"], "<item>": ["a", "bb", "<item>c"]},
    {"<start>": ["<a><b>"], "<a>": ["", "a<a>"], "<b>": ["bb", "b"]},
    {"<start>": ["<e>"], "<e>": ["(<e>+<e>)", "x", "yy"]},
    {"<start>": ["<w>"], "<w>": ["<byte><byte>", "<byte>"], "<byte>": ["<hex><hex>"], "<hex>": ["0", "f"]},
    # nonterminals that are nullable only indirectly (<opt> has no "" alternative of its own)
    {"<start>": ["<opt>k<opt>"], "<opt>": ["<ws>"], "<ws>": ["", " <ws>"]},
]
COUNTG = {"<start>": ["<list>"], "<list>": ["<item>,<list>", "<item>"], "<item>": ["(<item>|<item>)", "i", "<opt>"], "<opt>": ["o", ""]}
COUNT_GRAPH = gg.GrammarGraph.from_grammar(COUNTG)
COUNT_CAN = vlib.canonical_grammar(COUNTG)
MAXC = vlib.max_choice(COUNTG, True)


def nodes(t):
    out = []

    def rec(n, p):
        out.append((p, n))
        for i, c in enumerate(n.children or ()):
            rec(c, p + (i,))
    rec(t, ())
    return out


def _fixed(g: int, nt: int, n: int) -> bool:
    gram = FIXED[g]
    nts = sorted(gram)
    start = nts[nt % len(nts)]
    can = canonical(gram)
    ran = 0
    for draws in itertools.product(range(4), repeat=D):
        try:
            r = h_c12.with_stream(draws, lambda: create_fixed_length_tree(start, can, n))
        except vlib.IgnoreAttempt:
            continue
        except Exception as e:
            raise AssertionError("create_fixed_length_tree(%s, g%d, %d) raised %s: %s" % (start, g, n, type(e).__name__, str(e)[:100]))
        ran += 1
        if r is None:
            continue
        what = "create_fixed_length_tree(%s, g%d, %d)" % (start, g, n)
        if r.value != start:
            raise AssertionError("%s: root is %s" % (what, r.value))
        if any(m.children is None for _, m in nodes(r)):
            raise AssertionError("%s: result %r is not closed; open leaves %s" % (what, str(r), [(p, m.value) for p, m in nodes(r) if m.children is None]))
        if not vlib.valid_tree(gram, r, allow_open=False):
            raise AssertionError("%s: result %r is not a derivation tree" % (what, str(r)))
        if len(str(r)) != n:
            raise AssertionError("%s: result %r has length %d" % (what, str(r), len(str(r))))
    if ran == 0:
        raise vlib.IgnoreAttempt()
    return True


def h_fixed_length(xs: List[int]) -> bool:
    """
    pre: len(xs) == 3 and 0 <= xs[0] < 5 and 0 <= xs[1] < 4 and 0 <= xs[2] <= NMAX
    post: _
    """
    g, nt, n = [int(x) for x in vlib.realize(xs)]
    return vlib.untraced(_fixed, g, nt, n)


def _reach(label: str, needle: str) -> bool:
    return COUNT_GRAPH.reachable(COUNT_GRAPH.get_node(label), COUNT_GRAPH.get_node(needle))


def _count(ch, target: int, needle_i: int, as_str: int) -> bool:
    t = vlib.mk_tree(vlib.decode_tree(COUNTG, "<start>", ch, allow_open=True, close_rest=False))
    needle = ["<item>", "<opt>", "<list>"][needle_i % 3]
    num = str(target) if as_str else DerivationTree(str(target), ())
    what = "count(%r, %s, %d)" % (str(t), needle, target)
    try:
        res = h_c12.with_stream([0, 1], lambda: count(COUNT_GRAPH, t, needle, num)).result
    except vlib.IgnoreAttempt:
        raise
    except Exception as e:
        raise AssertionError("%s raised %s: %s" % (what, type(e).__name__, str(e)[:100]))
    c = sum(1 for _, m in nodes(t) if m.value == needle)
    more = any(m.children is None and _reach(m.value, needle) for _, m in nodes(t))
    if res is True:
        if c != target or more:
            raise AssertionError("%s = True but the tree has %d needles, more possible: %s" % (what, c, more))
    elif res is False:
        if c == target and not more:
            raise AssertionError("%s = False but the tree has exactly %d needles and no open leaf reaches one" % (what, c))
    elif isinstance(res, dict):
        if list(res.keys()) != [t]:
            raise AssertionError("%s proposes a replacement for something else than its tree argument" % what)
        r = res[t]
        c2 = sum(1 for _, m in nodes(r) if m.value == needle)
        more2 = [(p, m.value) for p, m in nodes(r) if m.children is None and _reach(m.value, needle)]
        if c2 != target:
            raise AssertionError("%s: completion %r has %d needles" % (what, str(r), c2))
        if more2:
            raise AssertionError("%s: completion %r still has open leaves that can produce a needle: %s" % (what, str(r), more2))
        if r.value != t.value or not vlib.valid_tree(COUNTG, r, allow_open=True):
            raise AssertionError("%s: completion %r is not a derivation tree for %s" % (what, str(r), t.value))
    elif res is not None:
        raise AssertionError("%s: unexpected result %r" % (what, res))
    return True


def _count_all(ch, target: int) -> bool:
    n = 0
    for needle_i in range(3):
        for as_str in (0, 1):
            _count(ch, target, needle_i, as_str)
            n += 1
    return n > 0


def h_count(ch: List[int]) -> bool:
    """
    pre: len(ch) <= L and all(0 <= c < MAXC for c in ch)
    post: _
    """
    return vlib.untraced(_count_all, [int(c) for c in vlib.realize(ch)], TARGET)
