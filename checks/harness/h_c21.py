"""C21 harness: inputs generated for the shipped formalizations pass independent validity checks.

Decomposition (DESIGN.md section 10):
 adequacy   for EVERY derivation tree of the shipped grammar within the bound (solver-enumerated choice vectors over a
            macro grammar, expanded to trees of the real grammar): if the shipped constraint evaluates to TRUE on the tree
            (real isla.evaluator.evaluate with the shipped semantic predicates), the independent validator accepts its
            string.  Together with C01 (solutions satisfy the constraint) this is C21 for every seed and cost setting.
 solve      end-to-end: the solver enumerates configuration vectors (formalization, random seed, cost settings,
            instantiation limits); the real ISLaSolver is created from the shipped grammar and constraint and every one of
            its first N solutions is passed to the independent validator.

Independent validators (none of them uses ISLa's evaluator or the shipped constraints):
 csv   Python's csv module: all records have the same number of fields
 xml   expat through xml.etree (well-formedness, namespace prefixes bound, no duplicate attributes)
 rest  docutils: no system message of level >= 2 (underline too short, unknown / duplicate link target, ...), as many
       rendered titles as section titles; enumerations numbered consecutively (read off the text)
 tar   hand-written: 100-byte NUL-padded name fields, 8-byte checksum field (6 octal digits NUL SPACE) equal to the byte
       sum of the header with the checksum field blanked, type flag, NUL-padded link name field (whether a link target
       exists is NOT checked: the property statement names checksums and field encodings only)
"""
import csv as _csv
import io
import os
import random
import re
import signal
from typing import List

import vlib

vlib.import_isla()

import isla.solver as S  # noqa: E402
from grammar_graph import gg  # noqa: E402
from isla.derivation_tree import DerivationTree  # noqa: E402
from isla.evaluator import evaluate  # noqa: E402
from isla.parser import EarleyParser  # noqa: E402
from isla_formalizations import csv as F_CSV, rest as F_REST, simple_tar as F_TAR, xml_lang as F_XML  # noqa: E402
import h_c01  # Clock stub, alarm guard, z3 parameter isolation  # noqa: E402

NSOL = int(os.environ.get("VERIF_NSOL", "10"))
PART = os.environ.get("VERIF_PART", "")          # "k/n": partition of the input space
WHICH = os.environ.get("VERIF_WHICH", "")        # restrict h_solve to one formalization index
CALL_LIMIT_S = float(os.environ.get("VERIF_CALL_LIMIT", "60"))


# ------------------------------------------------------------------ independent validators

def v_csv(s: str):
    rows = list(_csv.reader(io.StringIO(s, newline=""), delimiter=";"))
    if not rows:
        return "no record"
    lens = {len(r) for r in rows}
    if len(lens) != 1:
        return "records with %s fields" % sorted(lens)
    return True


def v_xml(s: str):
    import xml.etree.ElementTree as ET
    try:
        ET.fromstring(s)
        return True
    except Exception as e:      # ParseError
        return "%s" % e


_ENUM_ITEM = re.compile(r"^(\d+)\. ")


def v_rest(s: str, tree=None):
    from docutils.core import publish_doctree
    from docutils import nodes as dn
    err = io.StringIO()
    try:
        doc = publish_doctree(s, settings_overrides={"input_encoding": "unicode", "report_level": 2, "halt_level": 5,
                                                     "warning_stream": err})
    except Exception as e:
        return "docutils raised %s: %s" % (type(e).__name__, str(e)[:80])
    msgs = [m for m in doc.traverse(dn.system_message) if m["level"] >= 2]
    if msgs:
        return "docutils: " + msgs[0].astext().replace("\n", " ")[:120]
    if err.getvalue().strip():
        return "docutils: " + err.getvalue().strip().replace("\n", " ")[:120]
    if tree is not None:
        titles = len(tree.filter(lambda n: n.value == "<section-title>"))
        rendered = len(list(doc.traverse(dn.title))) + len(list(doc.traverse(dn.subtitle)))
        if titles != rendered:
            return "%d section titles rendered as %d headings" % (titles, rendered)
        for _, en in tree.filter(lambda n: n.value == "<enumeration>"):
            nums = []
            for line in str(en).split("\n"):
                m = _ENUM_ITEM.match(line)
                if m:
                    nums.append(int(m.group(1)))
            for a, b in zip(nums, nums[1:]):
                if b != a + 1:
                    return "enumeration numbered %s" % nums
    return True


def tar_entries(s: str):
    """splits a simple-TAR string into (name field, checksum field, type flag, link field) records, or None"""
    out = []
    pos = 0
    while pos < len(s):
        # name field: up to the first octal digit run followed by NUL SPACE is ambiguous in general, so the split is by
        # the fixed layout 100 + 8 + 1 + 100 + len("CONTENT") whenever it fits, else by searching for the CONTENT marker
        end = s.find("CONTENT", pos)
        if end < 0:
            return None
        out.append(s[pos:end])
        pos = end + len("CONTENT")
    return out


def v_tar(s: str):
    recs = tar_entries(s)
    if not recs:
        return "no entry"
    names = []
    parsed = []
    for i, h in enumerate(recs):
        if len(h) != 209:
            return "entry %d: header has %d bytes instead of 209" % (i, len(h))
        name, chk, flag, link = h[:100], h[100:108], h[108], h[109:]
        nm = name.rstrip("\x00")
        if not nm or "\x00" in nm:
            return "entry %d: file name field is not a NUL-padded name" % i
        if not re.fullmatch(r"[0-7]{6}\x00 ", chk):
            return "entry %d: checksum field %r is not 6 octal digits NUL SPACE" % (i, chk)
        want = sum((name + " " * 8 + flag + link).encode("ascii"))
        if int(chk[:6], 8) != want:
            return "entry %d: checksum %s, header bytes sum to %o" % (i, chk[:6], want)
        if flag not in "02":
            return "entry %d: type flag %r" % (i, flag)
        ln = link.rstrip("\x00")
        if "\x00" in ln:
            return "entry %d: link name field is not NUL-padded" % i
        names.append(nm)
        parsed.append((flag, ln))
    return True


# ------------------------------------------------------------------ formalizations

XML_ALL = F_XML.XML_NAMESPACE_CONSTRAINT & F_XML.XML_WELLFORMEDNESS_CONSTRAINT & F_XML.XML_NO_ATTR_REDEF_CONSTRAINT
REST_ALL = F_REST.LENGTH_UNDERLINE & F_REST.DEF_LINK_TARGETS & F_REST.NO_LINK_TARGET_REDEF & F_REST.LIST_NUMBERING_CONSECUTIVE

FORMS = [
    ("csv", F_CSV.CSV_GRAMMAR, F_CSV.CSV_COLNO_PROPERTY, lambda t: v_csv(str(t)), dict(max_number_smt_instantiations=2)),
    ("xml", F_XML.XML_GRAMMAR_WITH_NAMESPACE_PREFIXES, XML_ALL, lambda t: v_xml(str(t)), dict(enforce_unique_trees_in_queue=True)),
    ("rest", F_REST.REST_GRAMMAR, REST_ALL, lambda t: v_rest(str(t), t), dict(enforce_unique_trees_in_queue=True)),
    ("tar", F_TAR.SIMPLE_TAR_GRAMMAR, F_TAR.TAR_CONSTRAINTS, lambda t: v_tar(str(t)), dict(enforce_unique_trees_in_queue=False)),
]

# cost settings: None = the solver's default; the others are the weight vectors the repository's own tests and
# evaluation scripts use for these case studies, plus two extreme ones
WEIGHTS = [
    None,
    (9.5, 0, 6, 0, 13, 4),
    (7, 1.5, 2.5, 2, 18, 4),
    (1, 0, 0, 0, 0, 3),
    (0, 5, 10, 1, 1, 3),
]


def mk_solver(v):
    fi, seed, wi, free, smt = v
    name, grammar, constraint, _, kw = FORMS[fi]
    kw = dict(kw)
    random.seed(seed)
    if WEIGHTS[wi] is not None:
        w = WEIGHTS[wi]
        kw["cost_computer"] = S.GrammarBasedBlackboxCostComputer(
            S.CostSettings(S.CostWeightVector(tree_closing_cost=w[0], constraint_cost=w[1], derivation_depth_penalty=w[2],
                                              low_k_coverage_penalty=w[3], low_global_k_path_coverage_penalty=w[4]), k=w[5]),
            gg.GrammarGraph.from_grammar(grammar))
    kw["max_number_free_instantiations"] = free
    kw["max_number_smt_instantiations"] = max(smt, kw.get("max_number_smt_instantiations", 1))
    return S.ISLaSolver(grammar, constraint, **kw)


def _solve_run(v) -> bool:
    fi = v[0]
    name, grammar, _, validator, _ = FORMS[fi]
    what0 = "solve() for the shipped %s formalization [seed=%d cost=%s free=%d smt=%d]" % (name, v[1], WEIGHTS[v[2]], v[3], v[4])
    try:
        solver = mk_solver(v)
    except Exception as e:
        raise AssertionError("creating the solver for %s raised %s: %s" % (name, type(e).__name__, str(e)[:100]))
    saved = h_c01.CALL_LIMIT_S
    h_c01.CALL_LIMIT_S = CALL_LIMIT_S
    try:
        for k in range(NSOL):
            r = h_c01.call(solver)
            if r[0] != "tree":
                if k == 0 and r[0] == "slow":
                    raise vlib.IgnoreAttempt()
                break       # exhaustion, timeout, exceptions: C02's subject
            t = r[1]
            if not _feature_gate(str(t), t):
                continue        # solutions in a recorded finding class are not validated again here
            res = validator(t)
            if res is not True:
                raise AssertionError("call %d of %s returned %r, which the independent %s check rejects: %s" % (k + 1, what0, str(t)[:300], name, res))
    finally:
        h_c01.CALL_LIMIT_S = saved
    return True


def _solve(v) -> bool:
    return h_c01._with_clock(h_c01.Clock([0]), lambda: _solve_run(v))


def _ok_cfg(v: List[int]) -> bool:
    if len(v) != 5:
        return False
    if not (0 <= v[0] < len(FORMS) and 0 <= v[1] < 64 and 0 <= v[2] < len(WEIGHTS) and 1 <= v[3] <= INST and 1 <= v[4] <= INST):
        return False
    if WHICH and v[0] != int(WHICH):
        return False
    if SEED and v[1] != int(SEED):
        return False
    return True


SEED = os.environ.get("VERIF_SEED", "")
INST = int(os.environ.get("VERIF_INST", "1"))


def h_solve(v: List[int]) -> bool:
    """
    pre: _ok_cfg(v)
    post: _
    """
    return vlib.untraced(h_c01._isolated, _solve, [int(x) for x in vlib.realize(v)])


# ------------------------------------------------------------------ adequacy: macro grammars

def _macro_tree(grammar, nt, text):
    key = (id(grammar), nt, text)
    if key not in _MACRO_CACHE:
        p = EarleyParser(grammar, start_symbol=nt)
        trees = list(p.parse(text))
        _MACRO_CACHE[key] = DerivationTree.from_parse_tree(trees[0])
    return _MACRO_CACHE[key]


_MACRO_CACHE = {}


def decode_macro(grammar, macros, start, code, rtl=False, budget=300):
    """Bijection between natural numbers and derivation trees: pre-order expansion in which the i-th node with more than
    one alternative takes digit i of `code` read as a mixed-radix numeral (least significant digit first, radix = number of
    alternatives of that node).  Alternative 0 is always the one on a smallest closed derivation, so the implicit leading
    zeros close the tree minimally.  A nonterminal in `macros` chooses among complete strings, which are parsed with the
    real grammar into a real subtree.  rtl: children are expanded right to left (the late parts of the input vary first)."""
    can = vlib.canonical_grammar(grammar)
    best = vlib.min_closing(grammar)
    count = 0

    def take(n):
        nonlocal code
        if n == 1:
            return 0
        c = code % n
        code //= n
        return c

    def expand(label):
        nonlocal count
        count += 1
        if count > budget:
            raise vlib.IgnoreAttempt()
        if label in macros:
            texts = macros[label]
            return _macro_tree(grammar, label, texts[take(len(texts))])
        alts = can[label]
        c = take(len(alts))
        b = best[label]
        c = b if c == 0 else (c - 1 if c <= b else c)     # 0 <-> best, the others keep their order
        kids = [None] * len(alts[c])
        order = range(len(kids) - 1, -1, -1) if rtl else range(len(kids))
        for i in order:
            t = alts[c][i]
            kids[i] = expand(t) if t in can else DerivationTree(t, ())
        return DerivationTree(label, tuple(kids))

    tree = expand(start)
    if code:
        raise vlib.IgnoreAttempt()      # budget cut the expansion short
    return tree


CSV_MACROS = {
    "<simple-field>": ["a", " b ", "c"],
    "<escaped-field>": ["", "x", ";", "\n", "a;b\nc"],
}
XML_MACROS = {
    "<id-no-prefix>": ["a", "b", "xmlns", "xml"],
    "<text>": ["t", "&quot;", "u u"],
}
REST_MACROS = {
    "<title-text>": ["T", "Tt", "Ttt"],
    "<underline>": ["=", "==", "---", "----"],
    "<id>": ["a", "b"],
    "<paragraph_chars>": ["x", " y"],
    "<paragraph_chars_nospace>": ["p", "q"],
    "<presep>": [" "],
    "<postsep>": [" ", "."],
    "<number>": ["1", "2", "3", "0", "10"],
    "<nobr-string>": ["i", "jj"],
}
# docutils-active body text (VERIF_RISKY=1): literal-block markers, underline-like lines, list / markup starts, indentation
REST_RISKY = dict(REST_MACROS)
REST_RISKY["<paragraph_chars>"] = ["x", " y", "\n==", ":: ", "\n1. z", "\n\n  k", "\\"]
REST_RISKY["<nobr-string>"] = ["i", "jj", "::", " ", "*i"]
REST_RISKY["<paragraph_chars_nospace>"] = ["p", "q", "-", "1.", ".."]
ADQ_RISKY = {"rest": REST_RISKY}
ADQ = {
    "csv": (0, CSV_MACROS),
    "xml": (1, XML_MACROS),
    "rest": (2, REST_MACROS),
}


# input classes of recorded findings: CrossHair stops at the first counterexample of a condition, so each recorded class is
# checked in a condition of its own (VERIF_ONLY_FEATURE) and skipped in the general one (VERIF_SKIP_FEATURES)
def _paragraphs(tree):
    return [str(n) for _, n in tree.filter(lambda n: n.value == "<paragraph>")]


_LISTLIKE = re.compile(r"^(-|\.\.|\d+\.|[A-Za-z]\.)(\s|$)")

FEATURES = {
    # XML: the namespace constraint lets a document bind the reserved prefix `xml`
    "xml-binds-reserved-prefix-xml": lambda s, t: 'xmlns:xml="' in s,
    # reST: body text that docutils reads as markup; the shipped constraints only speak about titles, links and numbering
    "rest-literal-block-marker": lambda s, t: "::" in s,
    "rest-text-line-above-underline-like-line": lambda s, t: any(re.search(r"\n[=-]+(\n|$)", p) for p in _paragraphs(t)),
    "rest-paragraph-starts-like-list-or-markup": lambda s, t: any(_LISTLIKE.match(p) for p in _paragraphs(t)),
    # '*' is excluded from paragraph text but not from titles and list items (<nobr-char>)
    "rest-inline-markup-start-character": lambda s, t: "*" in s,
    "rest-indented-continuation-line": lambda s, t: any("\n " in p for p in _paragraphs(t)),
}
ONLY_FEATURE = os.environ.get("VERIF_ONLY_FEATURE", "")
SKIP_FEATURES = [f for f in os.environ.get("VERIF_SKIP_FEATURES", "").split(",") if f]
RISKY = os.environ.get("VERIF_RISKY", "0") == "1"


def _feature_gate(s: str, tree) -> bool:
    if ONLY_FEATURE:
        return FEATURES[ONLY_FEATURE](s, tree)
    return not any(FEATURES[f](s, tree) for f in SKIP_FEATURES)


def _adequacy(which: str, code: int, rtl: bool) -> bool:
    fi, macros = ADQ[which]
    if RISKY and which in ADQ_RISKY:
        macros = ADQ_RISKY[which]
    name, grammar, constraint, validator, _ = FORMS[fi]
    tree = decode_macro(grammar, macros, "<start>", code, rtl)
    if not _feature_gate(str(tree), tree):
        raise vlib.IgnoreAttempt()
    try:
        verdict = evaluate(constraint, tree, grammar)
    except Exception as e:
        raise AssertionError("evaluate(shipped %s constraint) raised %s on %r: %s" % (name, type(e).__name__, str(tree), str(e)[:100]))
    if not verdict.is_true():
        return True
    res = validator(tree)
    if res is not True:
        raise AssertionError("the shipped %s constraint holds on %r, which the independent %s check rejects: %s" % (name, str(tree), name, res))
    return True


D = int(os.environ.get("VERIF_D", "3"))          # tree codes are D hexadecimal digits (one big symbolic int would make
RTL = os.environ.get("VERIF_RTL", "0") == "1"    # CrossHair's decision tree a chain; digits keep it shallow)
TOP = int(os.environ.get("VERIF_TOP", "16"))     # the most significant digit is below TOP
TOPEQ = int(os.environ.get("VERIF_TOPEQ", "-1"))  # ... or exactly this (class conditions: the slice known to contain a witness)


def _ok_digits(v: List[int]) -> bool:
    if len(v) != D or not all(0 <= x < 16 for x in v) or v[D - 1] >= TOP or (TOPEQ >= 0 and v[D - 1] != TOPEQ):
        return False
    if PART:
        k, m = PART.split("/")
        return sum(v) % int(m) == int(k)
    return True


def _code(v) -> int:
    return sum(int(x) << (4 * i) for i, x in enumerate(v))


def h_adq_csv(v: List[int]) -> bool:
    """
    pre: _ok_digits(v)
    post: _
    """
    return vlib.untraced(_adequacy, "csv", _code(vlib.realize(v)), RTL)


def h_adq_xml(v: List[int]) -> bool:
    """
    pre: _ok_digits(v)
    post: _
    """
    return vlib.untraced(_adequacy, "xml", _code(vlib.realize(v)), RTL)


def h_adq_rest(v: List[int]) -> bool:
    """
    pre: _ok_digits(v)
    post: _
    """
    return vlib.untraced(_adequacy, "rest", _code(vlib.realize(v)), RTL)


# ------------------------------------------------------------------ adequacy: XML namespace scenarios (element-level decoder)

XML_PREFIX = ["", "a:", "b:", "xml:"]
XML_ATTR = [None, 'c="t"', 'xmlns:a="t"', 'xmlns:b="t"', 'a:c="t"', 'b:c="t"', 'xml:c="t"', 'xmlns:xmlns="t"', 'xmlns="t"']
XML_KIND = ["text", "child-openclose", "child-with-text", "two-children", "self-closing"]
_XML_PARSER = None


def _xml_string(v):
    """v = [outer prefix, outer attr 1, outer attr 2, kind, inner prefix, inner attr 1, inner attr 2, close tag variant]"""
    p0, a1, a2, kind, p1, b1, b2, close = v

    def attrs(*ix):
        out = [XML_ATTR[i] for i in ix if XML_ATTR[i] is not None]
        return (" " + " ".join(out)) if out else ""
    outer = XML_PREFIX[p0] + "e"
    inner = XML_PREFIX[p1] + "f"
    k = XML_KIND[kind]
    if k == "self-closing":
        if p1 or b1 or b2 or close:
            raise vlib.IgnoreAttempt()
        return "<%s%s/>" % (outer, attrs(a1, a2))
    if k == "text":
        if p1 or b1 or b2:
            raise vlib.IgnoreAttempt()
        body = "t"
    elif k == "child-openclose":
        body = "<%s%s/>" % (inner, attrs(b1, b2))
    elif k == "child-with-text":
        body = "<%s%s>t</%s>" % (inner, attrs(b1, b2), inner)
    else:
        body = "<%s%s/><%s/>" % (inner, attrs(b1, b2), inner)      # the declaration of the first child is not in scope of the second
    closing = [outer, "e", "a:e", XML_PREFIX[p0] + "g"][close]
    if close and closing == outer:
        raise vlib.IgnoreAttempt()
    return "<%s%s>%s</%s>" % (outer, attrs(a1, a2), body, closing)


def _adequacy_xml_ns(v) -> bool:
    global _XML_PARSER
    s = _xml_string(v)
    name, grammar, constraint, validator, _ = FORMS[1]
    if _XML_PARSER is None:
        _XML_PARSER = EarleyParser(grammar)
    try:
        tree = DerivationTree.from_parse_tree(next(_XML_PARSER.parse(s)))
    except SyntaxError:
        raise vlib.IgnoreAttempt()
    if not _feature_gate(s, tree):
        raise vlib.IgnoreAttempt()
    try:
        verdict = evaluate(constraint, tree, grammar)
    except Exception as e:
        raise AssertionError("evaluate(shipped xml constraint) raised %s on %r: %s" % (type(e).__name__, s, str(e)[:100]))
    if not verdict.is_true():
        return True
    res = validator(tree)
    if res is not True:
        raise AssertionError("the shipped xml constraint holds on %r, which the independent xml check rejects: %s" % (s, res))
    return True


XML_SLOTS = [int(x) for x in os.environ.get("VERIF_XML_SLOTS", "1,1").split(",")]     # attribute slots used on the outer / inner element
XML_CLOSE = [int(x) for x in os.environ.get("VERIF_XML_CLOSE", "0,1,2,3").split(",")]
XML_INNER_ATTRS = [int(x) for x in os.environ.get("VERIF_XML_INNER_ATTRS", "").split(",") if x]


def _ok_xml(v: List[int]) -> bool:
    """symbolic part: outer prefix, outer attributes, body kind, inner prefix; the inner attributes and the close-tag
    variant are looped over natively for each of these"""
    if len(v) != 5:
        return False
    lims = [len(XML_PREFIX), len(XML_ATTR), len(XML_ATTR), len(XML_KIND), len(XML_PREFIX)]
    if not all(0 <= x < m for x, m in zip(v, lims)):
        return False
    if XML_SLOTS[0] == 1 and v[2]:
        return False
    if PART:
        k, m = PART.split("/")
        return (v[1] + v[2] + v[3] * 3) % int(m) == int(k)
    return True


def _adequacy_xml_all(v) -> bool:
    n = 0
    for b1 in (XML_INNER_ATTRS or range(len(XML_ATTR))):
        for b2 in (range(len(XML_ATTR)) if XML_SLOTS[1] > 1 else (0,)):
            for close in XML_CLOSE:
                try:
                    _adequacy_xml_ns(list(v) + [b1, b2, close])
                    n += 1
                except vlib.IgnoreAttempt:
                    continue
    if n == 0:
        raise vlib.IgnoreAttempt()
    return True


def h_adq_xml_ns(v: List[int]) -> bool:
    """
    pre: _ok_xml(v)
    post: _
    """
    return vlib.untraced(_adequacy_xml_all, [int(x) for x in vlib.realize(v)])


# ------------------------------------------------------------------ adequacy: simple TAR (field-level decoder)

TAR2 = os.environ.get("VERIF_TAR2", "0") == "1"
TAR_LINKS = int(os.environ.get("VERIF_TAR_LINKS", "4"))
TAR_NAMES = ["a", "b", "ab"]
TAR_PADS = [0, -1, 1]           # deviation of the NUL padding from the 100-byte field width
TAR_CHK = ["ok", "plus1", "short", "long"]


def _tar_string(v):
    """v = [entries-1] + per entry [name, name pad, type flag, link (0 = NULs only, k = TAR_NAMES[k-1]), link pad, checksum kind]"""
    n = v[0] + 1
    if len(v) != 1 + 6 * n:
        raise vlib.IgnoreAttempt()
    out = []
    for e in range(n):
        ni, npad, flag, li, lpad, ck = v[1 + 6 * e: 7 + 6 * e]
        name = TAR_NAMES[ni]
        namef = name + "\x00" * (100 - len(name) + TAR_PADS[npad])
        link = "" if li == 0 else TAR_NAMES[li - 1]
        linkf = link + "\x00" * (100 - len(link) + TAR_PADS[lpad])
        fl = "02"[flag]
        total = sum((namef + " " * 8 + fl + linkf).encode("ascii"))
        if TAR_CHK[ck] == "ok":
            digits = "%06o" % total
        elif TAR_CHK[ck] == "plus1":
            digits = "%06o" % (total + 1)
        elif TAR_CHK[ck] == "short":
            digits = "%05o" % total
        else:
            digits = "%07o" % total
        out.append(namef + digits + "\x00 " + fl + linkf + "CONTENT")
    return "".join(out)


_TAR_PARSER = None


def _adequacy_tar(v) -> bool:
    global _TAR_PARSER
    s = _tar_string(v)
    if _TAR_PARSER is None:
        _TAR_PARSER = EarleyParser(F_TAR.SIMPLE_TAR_GRAMMAR)
    try:
        tree = DerivationTree.from_parse_tree(next(_TAR_PARSER.parse(s)))
    except SyntaxError:
        raise vlib.IgnoreAttempt()
    try:
        verdict = evaluate(F_TAR.TAR_CONSTRAINTS, tree, F_TAR.SIMPLE_TAR_GRAMMAR)
    except Exception as e:
        raise AssertionError("evaluate(shipped tar constraint) raised %s on the string decoded from %s: %s" % (type(e).__name__, v, str(e)[:100]))
    if not verdict.is_true():
        return True
    res = v_tar(s)
    if res is not True:
        raise AssertionError("the shipped tar constraint holds on the string decoded from %s, which the independent tar check rejects: %s" % (v, res))
    return True


def _ok_tar(v: List[int]) -> bool:
    if len(v) not in ((7, 13) if TAR2 else (7,)) or v[0] != (len(v) - 1) // 6 - 1:
        return False
    if len(v) == 13 and any(v[1:7]) and any(v[7:13]):
        return False        # two entries: one of them is the valid baseline entry "a"
    for e in range(v[0] + 1):
        ni, npad, flag, li, lpad, ck = v[1 + 6 * e: 7 + 6 * e]
        if not (0 <= ni < 3 and 0 <= npad < 3 and 0 <= flag < 2 and 0 <= li < TAR_LINKS and 0 <= lpad < 3 and 0 <= ck < 4):
            return False
    if PART:
        k, m = PART.split("/")
        return sum(v) % int(m) == int(k)
    return True


def _timed(fn, *args):
    log = os.environ.get("VERIF_TIMELOG")
    if not log:
        return fn(*args)
    import time as _t
    t0 = _t.time()
    try:
        return fn(*args)
    finally:
        with open(log, "a") as f:
            f.write("%.3f %.3f %s\n" % (t0, _t.time() - t0, args))


def h_adq_tar(v: List[int]) -> bool:
    """
    pre: _ok_tar(v)
    post: _
    """
    return vlib.untraced(_timed, _adequacy_tar, [int(x) for x in vlib.realize(v)])
