"""C04 harness: structural predicates vs. their documented meaning (islaspec.rst,
"Structural Predicates" table + isBefore recursion).  Real functions from
isla.isla_predicates are executed by CrossHair on symbolic paths.

Bounds come from the environment: VERIF_N = max path length; VERIF_K = index of
the portfolio tree for the label-dependent predicates.
"""
import os
from typing import List

import vlib

vlib.import_isla()

from isla import isla_predicates as P  # noqa: E402

N = int(os.environ.get("VERIF_N", "3"))
K = int(os.environ.get("VERIF_K", "0"))

# ---------------------------------------------------------------- reference


def is_prefix(p: tuple, q: tuple) -> bool:
    return len(p) <= len(q) and q[: len(p)] == p


def ref_before(p: tuple, q: tuple) -> bool:
    """strictly earlier in document order and neither below the other"""
    n = min(len(p), len(q))
    for i in range(n):
        if p[i] != q[i]:
            return p[i] < q[i]
    return False  # one is a prefix of the other (or equal)


def ref_after(p: tuple, q: tuple) -> bool:
    return ref_before(q, p)


def ref_inside(p: tuple, q: tuple) -> bool:
    return is_prefix(q, p)


def ref_direct_child(p: tuple, q: tuple) -> bool:
    return len(p) == len(q) + 1 and p[: len(q)] == q


def _nonneg(p: List[int]) -> bool:
    return all(x >= 0 for x in p)

# ---------------------------------------------------------------- pure path predicates


def h_before(p: List[int], q: List[int]) -> bool:
    """
    pre: len(p) <= N and len(q) <= N
    pre: _nonneg(p) and _nonneg(q)
    post: _
    """
    p1, q1 = tuple(p), tuple(q)
    return P.is_before(None, p1, q1) == ref_before(p1, q1)


def h_after(p: List[int], q: List[int]) -> bool:
    """
    pre: len(p) <= N and len(q) <= N
    pre: _nonneg(p) and _nonneg(q)
    post: _
    """
    p1, q1 = tuple(p), tuple(q)
    return P.is_after(None, p1, q1) == ref_after(p1, q1)


def h_inside(p: List[int], q: List[int]) -> bool:
    """
    pre: len(p) <= N and len(q) <= N
    pre: _nonneg(p) and _nonneg(q)
    post: _
    """
    p1, q1 = tuple(p), tuple(q)
    return P.in_tree(None, p1, q1) == ref_inside(p1, q1)


def h_direct_child(p: List[int], q: List[int]) -> bool:
    """
    pre: len(p) <= N and len(q) <= N
    pre: _nonneg(p) and _nonneg(q)
    post: _
    """
    p1, q1 = tuple(p), tuple(q)
    return P.DIRECT_CHILD_PREDICATE.evaluate(None, p1, q1) == ref_direct_child(p1, q1)


def h_same_different(p: List[int], q: List[int]) -> bool:
    """
    pre: len(p) <= N and len(q) <= N
    pre: _nonneg(p) and _nonneg(q)
    post: _
    """
    p1, q1 = tuple(p), tuple(q)
    same = P.is_same_position(None, p1, q1)
    diff = P.is_different_position(None, p1, q1)
    return same == (p1 == q1) and diff == (p1 != q1)


def h_trichotomy(p: List[int], q: List[int]) -> bool:
    """
    pre: len(p) <= N and len(q) <= N
    pre: _nonneg(p) and _nonneg(q)
    post: _
    """
    # exactly one of: before, after, one below/equal the other
    p1, q1 = tuple(p), tuple(q)
    b = P.is_before(None, p1, q1)
    a = P.is_after(None, p1, q1)
    nested = P.in_tree(None, p1, q1) or P.in_tree(None, q1, p1)
    return (int(b) + int(a) + int(nested)) == 1

# ---------------------------------------------------------------- label-dependent predicates


B, S = "<b>", "<s>"
SMALL_TREES = [
    # {d{u}} : declaration at outer level, use one block deeper
    (S, [(B, [("<d>", ["d"]), (B, [("<u>", ["u"])])])]),
    # {{d}u}
    (S, [(B, [(B, [("<d>", ["d"])]), ("<u>", ["u"])])]),
    # three levels, siblings on every level
    (B, [("<d>", []), (B, [(B, [("<u>", [])]), ("<d>", [])]), ("<u>", [])]),
    # no block at all / block label at the root only
    (B, [("<d>", ["d"]), ("<u>", ["u"]), ("<d>", ["e"])]),
    # common-prefix shape for consecutive: leaves under a shared inner node and outside it
    (S, [("<x>", [("<y>", ["a", "b"]), "c"]), "d", ("<x>", ["e"])]),
    # same label nested in itself (nth counts pre-order occurrences, including ancestors inside node 2)
    ("<x>", [("<x>", [("<x>", ["a"]), ("<y>", [])]), ("<x>", ["b"])]),
    # open leaves and an epsilon child
    (S, [("<x>", None), ("<y>", [""]), ("<x>", ["a"]), ("<x>", None)]),
]
TREES = [vlib.mk_tree(t) for t in SMALL_TREES] + [
    vlib.parse_tree(vlib.BLOCK_GRAMMAR, "{d{{u}d}u}"),
    vlib.parse_tree(vlib.LANG_GRAMMAR, "a := b ; b := c"),
    vlib.parse_tree(vlib.XMLISH_GRAMMAR, "<a><b/>x</a>"),
    vlib.parse_tree(vlib.NULLABLE_GRAMMAR, "abbc"),
]
TREE = TREES[K]
NTS = sorted({n.value for _, n in TREE.paths() if vlib.is_nonterminal(n.value)})
LEVEL_NT = next((x for x in ("<b>", "<block>", "<stmt>", "<tree>", "<x>") if x in NTS), NTS[-1])
# partition of the first path over processes (thorough tier, large trees): VERIF_PART = "i/n"
PART_I, PART_N = (int(x) for x in os.environ.get("VERIF_PART", "0/1").split("/"))


def _part(p: List[int]) -> bool:
    return PART_N == 1 or (len(p) + sum(p)) % PART_N == PART_I
MAXDEPTH = max(len(p) for p in vlib.all_paths(TREE))


def _valid(p: List[int]) -> bool:
    node = TREE
    for i in p:
        ch = node.children
        if ch is None or i < 0 or i >= len(ch):
            return False
        node = ch[i]
    return True


def _node(p: tuple):
    node = TREE
    for i in p:
        node = node.children[i]
    return node


def _label(p: tuple) -> str:
    return _node(p).value


def _is_leaf(p: List[int]) -> bool:
    return not _node(tuple(p)).children


def ref_nth(n: int, p: tuple, q: tuple) -> bool:
    """p is the n-th (1-based, pre-order) node carrying p's label inside the subtree at q"""
    if not is_prefix(q, p):
        return False
    lab = _label(p)
    same = [r for r in vlib.all_paths(TREE) if is_prefix(q, r) and _label(r) == lab]
    # all_paths is pre-order
    return same.index(p) + 1 == n


def h_nth(n: int, p: List[int], q: List[int]) -> bool:
    """
    pre: len(p) <= MAXDEPTH and len(q) <= MAXDEPTH
    pre: _valid(p) and _valid(q) and _part(p)
    pre: vlib.is_nonterminal(_label(tuple(p)))
    post: _
    """
    p1, q1 = tuple(vlib.realize(p)), tuple(vlib.realize(q))
    return P.is_nth(TREE, n, p1, q1) == ref_nth(n, p1, q1)


def h_nth_str(n: int, p: List[int], q: List[int]) -> bool:
    """
    pre: 0 <= n <= 12
    pre: len(p) <= MAXDEPTH and len(q) <= MAXDEPTH
    pre: _valid(p) and _valid(q) and _part(p)
    pre: vlib.is_nonterminal(_label(tuple(p)))
    post: _
    """
    p1, q1 = tuple(vlib.realize(p)), tuple(vlib.realize(q))
    return P.is_nth(TREE, str(n), p1, q1) == ref_nth(n, p1, q1)


def ref_consecutive(p: tuple, q: tuple) -> bool:
    """p and q are leaves and q is the leaf right after p in the tree's leaf sequence"""
    leaves = [r for r in vlib.all_paths(TREE) if not _node(r).children]
    return leaves.index(p) + 1 == leaves.index(q) if p in leaves and q in leaves else False


def _share_prefix(p: List[int], q: List[int]) -> bool:
    return len(p) > 0 and len(q) > 0 and p[0] == q[0]


def h_consecutive_top(p: List[int], q: List[int]) -> bool:
    """
    pre: len(p) <= MAXDEPTH and len(q) <= MAXDEPTH
    pre: _valid(p) and _valid(q) and _part(p)
    pre: _is_leaf(p) and _is_leaf(q)
    pre: not _share_prefix(p, q)
    post: _
    """
    # the two leaves have no common ancestor below the root
    p1, q1 = tuple(vlib.realize(p)), tuple(vlib.realize(q))
    return P.consecutive(TREE, p1, q1) == ref_consecutive(p1, q1)


def h_consecutive_nested(p: List[int], q: List[int]) -> bool:
    """
    pre: len(p) <= MAXDEPTH and len(q) <= MAXDEPTH
    pre: _valid(p) and _valid(q) and _part(p)
    pre: _is_leaf(p) and _is_leaf(q)
    pre: _share_prefix(p, q)
    post: _
    """
    # the two leaves share a proper ancestor below the root (KNOWN FINDING on the pinned tree:
    # relative leaf paths are compared with absolute argument paths)
    p1, q1 = tuple(vlib.realize(p)), tuple(vlib.realize(q))
    return P.consecutive(TREE, p1, q1) == ref_consecutive(p1, q1)


def _inner_len(p: tuple) -> int:
    """length of the deepest proper, non-root ancestor of p labelled LEVEL_NT (0 if none)"""
    best = 0
    for i in range(1, len(p)):
        if _label(p[:i]) == LEVEL_NT:
            best = i
    return best


def _common_scopes(p: tuple, q: tuple) -> List[int]:
    """lengths of the scopes shared by p and q: 0 (no scope) and every common non-empty prefix
    labelled LEVEL_NT (comment block in isla_predicates.level_check)"""
    res = [0]
    for i in range(1, min(len(p), len(q)) + 1):
        if p[:i] != q[:i]:
            break
        if _label(p[:i]) == LEVEL_NT:
            res.append(i)
    return res


def ref_level(op: str, p: tuple, q: tuple) -> bool:
    l1, l2 = _inner_len(p), _inner_len(q)
    for c in _common_scopes(p, q):
        no1, no2 = l1 <= c, l2 <= c   # no LEVEL_NT node strictly between scope c and p / q
        if op == "EQ" and no1 and no2:
            return True
        if op == "GE" and no1:
            return True
        if op == "LE" and no2:
            return True
        if op == "GT" and no1 and not no2:
            return True
        if op == "LT" and no2 and not no1:
            return True
    return False


OPS = ["EQ", "GE", "LE", "GT", "LT"]


def h_level(o: int, p: List[int], q: List[int]) -> bool:
    """
    pre: 0 <= o < 5
    pre: len(p) <= MAXDEPTH and len(q) <= MAXDEPTH
    pre: _valid(p) and _valid(q) and _part(p)
    post: _
    """
    p1, q1 = tuple(vlib.realize(p)), tuple(vlib.realize(q))
    op = OPS[vlib.realize(o)]
    return P.level_check(TREE, op, LEVEL_NT, p1, q1) == ref_level(op, p1, q1)
