"""C20 harness: library semantic predicates decide their documented relation on concrete trees.

The solver enumerates digit/character vectors (decoded into closed argument trees), widths, numerals and
predicate variants; the real predicates run natively.
  octal_to_decimal (the predicate shipped in isla_formalizations.tar): verdict True iff int(octal, 8) == int(decimal);
      a proposed replacement satisfies the relation.
  crop / ljust / rjust / ljust_crop / rjust_crop / extend_crop: True iff the width relation already holds;
      a replacement has the requested width, is a tree for the argument's nonterminal, and is the justified/cropped text.
  count on closed trees: True iff the needle occurs exactly the given number of times.
"""
import os
from typing import List

import vlib

vlib.import_isla()

from grammar_graph import gg  # noqa: E402
from isla import language  # noqa: E402
from isla.derivation_tree import DerivationTree  # noqa: E402
from isla.isla_predicates import (  # noqa: E402
    CROP_PREDICATE, LJUST_PREDICATE, RJUST_PREDICATE, LJUST_CROP_PREDICATE, RJUST_CROP_PREDICATE, EXTEND_CROP_PREDICATE, count)
from isla_formalizations.tar import octal_to_decimal_tar, octal_conv_grammar, octal_conv_graph  # noqa: E402

NDIG = int(os.environ.get("VERIF_NDIG", "3"))
NCH = int(os.environ.get("VERIF_NCH", "3"))
WMAX = int(os.environ.get("VERIF_WMAX", "5"))
CL = int(os.environ.get("VERIF_CL", "6"))
FIRSTDIGIT = int(os.environ.get("VERIF_FIRSTDIGIT", "-1"))
VARIANT = int(os.environ.get("VERIF_VARIANT", "-1"))

FIELD = {"<start>": ["<field>"], "<field>": ["<ch><field>", ""], "<ch>": ["a", "b", "0", " "]}
FIELD_GRAPH = gg.GrammarGraph.from_grammar(FIELD)
CHARS = ["a", "b", "0", " "]


def nodes(t):
    out = []

    def rec(n, p):
        out.append((p, n))
        for i, c in enumerate(n.children or ()):
            rec(c, p + (i,))
    rec(t, ())
    return out


def _tree(grammar, start, s):
    return vlib.parse_tree(dict(grammar, **{"<start>": [start]}), s).children[0]


# ---------------------------------------------------------------- octal_to_decimal

def _octal(od, dd, mode) -> bool:
    o, d = "".join(str(x) for x in od), "".join(str(x) for x in dd)
    ot, dt = _tree(octal_conv_grammar, "<octal_digits>", o), _tree(octal_conv_grammar, "<decimal_digits>", d)
    ov, dv = language.Variable("o", "<octal_digits>"), language.Variable("d", "<decimal_digits>")
    f = octal_to_decimal_tar(ot if mode != 2 else ov, dt if mode != 1 else dv)
    what = "octal_to_decimal(%s, %s)" % (o if mode != 2 else "?", d if mode != 1 else "?")
    try:
        res = f.evaluate(octal_conv_graph).result
    except Exception as e:
        raise AssertionError("%s raised %s: %s" % (what, type(e).__name__, str(e)[:100]))
    if mode == 0:
        want = int(o, 8) == int(d)
        if res is not want:
            raise AssertionError("%s = %r, but int(%r, 8) = %d and int(%r) = %d" % (what, res, o, int(o, 8), d, int(d)))
        return True
    if not isinstance(res, dict) or len(res) != 1:
        raise AssertionError("%s: expected a replacement, got %r" % (what, res))
    (k, r), = res.items()
    if mode == 1:
        if k != dv or not str(r).isdigit() or int(str(r)) != int(o, 8) or r.value != "<decimal_digits>" or \
                not vlib.valid_tree(octal_conv_grammar, r, allow_open=False):
            raise AssertionError("%s proposes decimal %r (%s) for octal %r = %d" % (what, str(r), r.value, o, int(o, 8)))
    else:
        if k != ov or any(c not in "01234567" for c in str(r)) or int(str(r), 8) != int(d) or r.value != "<octal_digits>" or \
                not vlib.valid_tree(octal_conv_grammar, r, allow_open=False):
            raise AssertionError("%s proposes octal %r (%s) for decimal %r" % (what, str(r), r.value, d))
    return True


import itertools  # noqa: E402


def _octal_all(od) -> bool:
    for n in range(1, NDIG + 1):
        for dd in itertools.product(range(10), repeat=n):
            for mode in range(3):
                _octal(od, list(dd), mode)
    return True


def h_octal(od: List[int]) -> bool:
    """
    pre: 1 <= len(od) <= NDIG and all(0 <= x <= 7 for x in od)
    pre: FIRSTDIGIT < 0 or od[0] == FIRSTDIGIT
    post: _
    """
    return vlib.untraced(_octal_all, [int(x) for x in vlib.realize(od)])


# ---------------------------------------------------------------- justify / crop

VARIANTS = [("crop", CROP_PREDICATE), ("ljust", LJUST_PREDICATE), ("rjust", RJUST_PREDICATE), ("ljust_crop", LJUST_CROP_PREDICATE),
            ("rjust_crop", RJUST_CROP_PREDICATE), ("extend_crop", EXTEND_CROP_PREDICATE)]


def _just(cs, width, fill_i, variant, width_as_tree) -> bool:
    s = "".join(CHARS[c] for c in cs)
    t = _tree(FIELD, "<field>", s)
    name, pred = VARIANTS[variant]
    fill = CHARS[fill_i]
    w = DerivationTree(str(width), ()) if (width_as_tree or name in ("crop",)) else width
    if name == "extend_crop":
        if not s or any(ch != s[0] for ch in s):
            raise vlib.IgnoreAttempt()      # documented domain: a string made of one repeated character
        args, fill = (t, w), s[0]
    elif name == "crop":
        args = (t, w)
    else:
        args = (t, w, fill)
    if name in ("ljust", "rjust") and len(s) > width:
        raise vlib.IgnoreAttempt()          # justification without cropping cannot shorten: outside the claim
    what = "%s(%r, %d%s)" % (name, s, width, "" if name in ("crop", "extend_crop") else ", %r" % fill)
    try:
        res = pred.evaluate(FIELD_GRAPH, *args).result
    except Exception as e:
        raise AssertionError("%s raised %s: %s" % (what, type(e).__name__, str(e)[:100]))
    holds = (len(s) <= width) if name == "crop" else (len(s) == width)
    if res is True:
        if not holds:
            raise AssertionError("%s = True although the argument has width %d" % (what, len(s)))
        return True
    if holds:
        raise AssertionError("%s = %r although the argument already has the requested width" % (what, res))
    if not isinstance(res, dict) or list(res.keys()) != [t]:
        raise AssertionError("%s: expected a replacement for its argument, got %r" % (what, res))
    r = res[t]
    if name == "crop":
        want = s[:width]
    elif name in ("ljust", "ljust_crop", "extend_crop"):
        want = s.ljust(width, fill)[:width]
    else:
        padded = s.rjust(width, fill)
        want = padded[len(padded) - width:]
    if str(r) != want or r.value != t.value or not vlib.valid_tree(FIELD, r, allow_open=False):
        raise AssertionError("%s proposed %r of width %d (%s); expected %r" % (what, str(r), len(str(r)), r.value, want))
    return True


def _just_all(cs, variant) -> bool:
    n = 0
    for width in range(0, WMAX + 1):
        for fill_i in range(4):
            for wt in (0, 1):
                try:
                    _just(cs, width, fill_i, variant, wt)
                    n += 1
                except vlib.IgnoreAttempt:
                    continue
    if n == 0:
        raise vlib.IgnoreAttempt()
    return True


def h_just(cs: List[int], variant: List[int]) -> bool:
    """
    pre: len(cs) <= NCH and all(0 <= c < 4 for c in cs)
    pre: len(variant) == 1 and 0 <= variant[0] < 6
    pre: VARIANT < 0 or variant[0] == VARIANT
    post: _
    """
    return vlib.untraced(_just_all, [int(c) for c in vlib.realize(cs)], int(vlib.realize(variant)[0]))


# ---------------------------------------------------------------- the TAR field predicates (fixed-width header fields)

from isla_formalizations.tar import TAR_GRAMMAR, LJUST_CROP_TAR_PREDICATE, RJUST_CROP_TAR_PREDICATE  # noqa: E402

TAR_GRAPH = gg.GrammarGraph.from_grammar(TAR_GRAMMAR)
TARKIND = int(os.environ.get("VERIF_TARKIND", "-1"))
# (nonterminal, predicate, left-justified?, width, fill character, trailer that belongs to the field)
TAR_FIELDS = [
    ("<file_name>", LJUST_CROP_TAR_PREDICATE, True, 100, "\x00", ""),
    ("<linked_file_name>", LJUST_CROP_TAR_PREDICATE, True, 100, "\x00", ""),
    ("<checksum>", RJUST_CROP_TAR_PREDICATE, False, 8, "0", "\x00 "),
    ("<file_size>", RJUST_CROP_TAR_PREDICATE, False, 12, "0", " "),
    ("<uname>", LJUST_CROP_TAR_PREDICATE, True, 32, "\x00", ""),
]
_TAR_TREES = {}


def _tar_field(kind, n, k) -> bool:
    """n: length of the text part (n < 4: absolute; else width - 7 + n, i.e. width-3 .. width+3);
    k: number of NULs appended (0, 1, 2, or what fills the field exactly -1 / +0 / +1)"""
    nt, pred, left, width, fill, trailer = TAR_FIELDS[kind]
    body = n if n < 4 else width - 7 + n
    if k >= 3:
        k = width - body + (k - 4)
    if body < 0 or k < 0:
        raise vlib.IgnoreAttempt()
    if nt in ("<checksum>", "<file_size>"):
        if k != 0 or body == 0:
            raise vlib.IgnoreAttempt()
        s = ("1234567" * 20)[:body] + trailer
    else:
        if body == 0 and (nt != "<linked_file_name>" or k == 0):
            raise vlib.IgnoreAttempt()
        s = ("ab" * 80)[:body] + "\x00" * k
    key = (nt, s)
    if key not in _TAR_TREES:
        try:
            _TAR_TREES[key] = vlib.parse_tree(TAR_GRAMMAR, s, start=nt)
        except SyntaxError:
            _TAR_TREES[key] = None
    t = _TAR_TREES[key]
    if t is None:
        raise vlib.IgnoreAttempt()
    what = "%s(%s tree of %d characters, %d, %r)" % (pred.name, nt, len(s), width, fill)
    try:
        res = pred.evaluate(TAR_GRAPH, t, width, fill).result
    except Exception as e:
        raise AssertionError("%s raised %s: %s" % (what, type(e).__name__, str(e)[:100]))
    holds = len(s) == width
    if res is True:
        if not holds:
            raise AssertionError("%s = True although the argument has width %d" % (what, len(s)))
        return True
    if holds:
        raise AssertionError("%s = %r although the argument already has the requested width" % (what, res))
    if not isinstance(res, dict) or list(res.keys()) != [t]:
        raise AssertionError("%s: expected a replacement for its argument, got %r" % (what, res))
    r = res[t]
    if left:
        want = s.ljust(width, fill)[:width]
    else:
        padded = s.rjust(width, fill)
        want = padded[len(padded) - width:]
    if str(r) != want:
        raise AssertionError("%s proposed %r (width %d); expected %r" % (what, str(r), len(str(r)), want))
    if r.value != nt or not vlib.valid_tree(TAR_GRAMMAR, r, allow_open=False):
        raise AssertionError("%s proposed a replacement that is not a derivation tree for %s (root %s, string %r)" % (what, nt, r.value, str(r)[:40]))
    return True


def h_just_tar(v: List[int]) -> bool:
    """
    pre: len(v) == 3 and 0 <= v[0] < 5 and 0 <= v[1] < 11 and 0 <= v[2] < 6
    pre: TARKIND < 0 or v[0] == TARKIND
    post: _
    """
    v = [int(x) for x in vlib.realize(v)]
    return vlib.untraced(_tar_field, v[0], v[1], v[2])


# ---------------------------------------------------------------- count on closed trees

COUNTG = {"<start>": ["<list>"], "<list>": ["<item>,<list>", "<item>"], "<item>": ["(<item>|<item>)", "i", "<opt>"], "<opt>": ["o", ""]}
COUNT_GRAPH = gg.GrammarGraph.from_grammar(COUNTG)
MAXC = vlib.max_choice(COUNTG, False)


def _count_closed(ch) -> bool:
    t = vlib.mk_tree(vlib.decode_tree(COUNTG, "<start>", ch, allow_open=False))
    for needle in ("<item>", "<opt>", "<list>"):
        c = sum(1 for _, m in nodes(t) if m.value == needle)
        for target in range(0, 6):
            for num in (str(target), DerivationTree(str(target), ())):
                res = count(COUNT_GRAPH, t, needle, num).result
                if res is not (c == target):
                    raise AssertionError("count(%r, %s, %d) = %r, but the tree contains %d %s nodes" % (str(t), needle, target, res, c, needle))
        nv = language.Variable("n", language.Variable.NUMERIC_NTYPE)
        res = count(COUNT_GRAPH, t, needle, nv).result
        if not isinstance(res, dict) or str(res.get(nv)) != str(c):
            raise AssertionError("count(%r, %s, n) proposes n = %s, but the tree contains %d" % (str(t), needle, res, c))
    return True


def h_count_closed(ch: List[int]) -> bool:
    """
    pre: len(ch) <= CL and all(0 <= c < MAXC for c in ch)
    post: _
    """
    return vlib.untraced(_count_closed, [int(c) for c in vlib.realize(ch)])
