"""C06-O1: Kleene monotonicity of ThreeValuedTruth (symbolic truth-value vectors, CrossHair).

a ⊑ b  iff  b is obtained from a by replacing UNKNOWN entries with definite values.  If a definite verdict
is computed from partially known inputs, refining the inputs must not change it."""
from typing import List

from isla.three_valued_truth import ThreeValuedTruth as T


def _tv(xs: List[int]) -> bool:
    return all(0 <= x <= 2 for x in xs)


def _refines(a: List[int], b: List[int]) -> bool:
    return len(a) == len(b) and all(x == y or x == 2 for x, y in zip(a, b))


def _le(u: T, v: T) -> bool:
    return u.val == v.val or u.is_unknown()


def h_all_any(n: int, a1: int, a2: int, a3: int, b1: int, b2: int, b3: int) -> bool:
    """
    pre: 0 <= n <= 3
    pre: 0 <= a1 <= 2 and 0 <= a2 <= 2 and 0 <= a3 <= 2 and 0 <= b1 <= 2 and 0 <= b2 <= 2 and 0 <= b3 <= 2
    pre: (a1 == b1 or a1 == 2) and (a2 == b2 or a2 == 2) and (a3 == b3 or a3 == 2)
    post: _
    """
    A, B = [T(x) for x in (a1, a2, a3)[:n]], [T(x) for x in (b1, b2, b3)[:n]]
    return _le(T.all(A), T.all(B)) and _le(T.any(A), T.any(B))


def h_binary(x: int, y: int, x2: int, y2: int) -> bool:
    """
    pre: _tv([x, y, x2, y2]) and _refines([x, y], [x2, y2])
    post: _
    """
    X, Y, X2, Y2 = T(x), T(y), T(x2), T(y2)
    return (_le(X & Y, X2 & Y2) and _le(X | Y, X2 | Y2) and _le(-X, -X2) and _le(T.not_(X), T.not_(X2))
            and (T.not_(X).val == (-X).val))


def h_definite_agrees(n: int, a1: int, a2: int, a3: int) -> bool:
    """
    pre: 0 <= n <= 3
    pre: 0 <= a1 <= 1 and 0 <= a2 <= 1 and 0 <= a3 <= 1
    post: _
    """
    # on definite inputs the connectives are the Boolean ones
    a = (a1, a2, a3)[:n]
    A = [T(x) for x in a]
    return T.all(A).val == int(all(x == 1 for x in a)) and T.any(A).val == int(any(x == 1 for x in a))
