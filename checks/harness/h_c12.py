"""C12 harness: fuzzer expansions and mutations produce valid trees of the same kind.

Inputs: a symbolic choice vector decoded into an open (expansion) or closed (mutation) tree, and a short
symbolic vector of random draws that the stubbed `random` module replays periodically (every finite
random stream of period <= VERIF_D over 4 values).  The real GrammarFuzzer / GrammarCoverageFuzzer /
Mutator run natively on the decoded inputs.
"""
import os
import random
from typing import List

import vlib

vlib.import_isla()

from isla.derivation_tree import DerivationTree  # noqa: E402
from isla.fuzzer import GrammarFuzzer, GrammarCoverageFuzzer  # noqa: E402
from isla.mutator import Mutator  # noqa: E402

GI = int(os.environ.get("VERIF_G", "0"))
L = int(os.environ.get("VERIF_L", "4"))
D = int(os.environ.get("VERIF_D", "3"))
GRAMMARS = [
    {"<start>": ["<s>"], "<s>": ["<a>;<s>", "<a>"], "<a>": ["<v>=<v>", "<v>"], "<v>": ["x", "y", ""]},
    # left recursion: the self-embedding nonterminal is not the last one of its expansion
    {"<start>": ["<expr>"], "<expr>": ["<expr>+<term>", "<term>"], "<term>": ["(<expr>)", "<digit>"], "<digit>": ["1", "2"]},
    # terminals that look almost like nonterminals
    {"<start>": ["<p>"], "<p>": ["<t><p>", "<t>"], "<t>": ["<br />", "a<b", "<i>"], "<i>": ["i", "> <"]},
    # the start symbol occurs on a right-hand side
    {"<start>": ["(<start>)", "<k><start>", "x"], "<k>": ["k", "-"]},
]
G = GRAMMARS[GI]
CAN = vlib.canonical_grammar(G)
MAXC = vlib.max_choice(G, True)


class Stream:
    """periodic replay of the draws; every random.* entry point used by fuzzer.py / mutator.py"""

    def __init__(self, draws):
        self.draws = list(draws) or [0]
        self.i = 0

    def nxt(self, n: int) -> int:
        v = self.draws[self.i % len(self.draws)]
        self.i += 1
        if self.i > 5000:
            raise vlib.IgnoreAttempt()
        return v % n

    def randrange(self, a, b=None):
        lo, hi = (0, a) if b is None else (a, b)
        return lo + self.nxt(hi - lo)

    def randint(self, a, b):
        return a + self.nxt(b - a + 1)

    def choice(self, seq):
        seq = list(seq)
        if not seq:
            raise IndexError("Cannot choose from an empty sequence")
        return seq[self.nxt(len(seq))]

    def choices(self, population, weights=None, k=1):
        population = list(population)
        return [population[self.nxt(len(population))] for _ in range(k)]

    def random(self):
        return self.nxt(4) / 4.0

    def shuffle(self, xs):
        for i in range(len(xs) - 1, 0, -1):
            j = self.nxt(i + 1)
            xs[i], xs[j] = xs[j], xs[i]

    def sample(self, population, k):
        population = list(population)
        out = []
        for _ in range(k):
            out.append(population.pop(self.nxt(len(population))))
        return out


def with_stream(draws, fn):
    st = Stream(draws)
    saved = {n: getattr(random, n) for n in ("randrange", "randint", "choice", "choices", "random", "shuffle", "sample")}
    for n in saved:
        setattr(random, n, getattr(st, n))
    try:
        return fn()
    finally:
        for n, f in saved.items():
            setattr(random, n, f)


def nodes(t):
    out = []

    def rec(n, p):
        out.append((p, n))
        for i, c in enumerate(n.children or ()):
            rec(c, p + (i,))
    rec(t, ())
    return out


def check_completion(t, r, what):
    if r.children is None or r.is_open() or any(n.children is None for _, n in nodes(r)):
        raise AssertionError("%s: result %r is not closed" % (what, str(r)))
    if r.value != t.value:
        raise AssertionError("%s: root changed from %s to %s" % (what, t.value, r.value))
    if not vlib.valid_tree(G, r, allow_open=False):
        raise AssertionError("%s: result %r is not a derivation tree of the grammar" % (what, str(r)))
    for p, n in nodes(t):
        if n.children is None:
            m = r.get_subtree(p)
            if m is None or m.value != n.value:
                raise AssertionError("%s: open leaf %s at %s was not completed in place" % (what, n.value, p))
            continue
        m = r.get_subtree(p)
        if m is None or m.id != n.id or m.value != n.value or [c.value for c in m.children or ()] != [c.value for c in n.children]:
            raise AssertionError("%s: already expanded node %s at %s was changed" % (what, n.value, p))


def _expand(ch, draws, cov) -> bool:
    t = vlib.mk_tree(vlib.decode_tree(G, "<start>", ch, allow_open=True, close_rest=False))
    if not t.is_open():
        raise vlib.IgnoreAttempt()
    fz = (GrammarCoverageFuzzer if cov else GrammarFuzzer)(G, max_nonterminals=4)
    try:
        r = with_stream(draws, lambda: fz.expand_tree(t))
    except vlib.IgnoreAttempt:
        raise
    except Exception as e:
        raise AssertionError("expand_tree(%r) raised %s: %s" % (str(t), type(e).__name__, str(e)[:100]))
    check_completion(t, r, ("coverage " if cov else "") + "expand_tree(%r)" % str(t))
    # the same input with sibling nodes of equal label sharing one id (what replace_path produces for an instantiated
    # copy of a template next to the template)
    t2 = vlib.share_sibling_ids(t)
    if t2 is not None:
        try:
            r2 = with_stream(draws, lambda: fz.expand_tree(t2))
        except vlib.IgnoreAttempt:
            raise
        except Exception as e:
            raise AssertionError("expand_tree(%r, siblings sharing an id) raised %s: %s" % (str(t), type(e).__name__, str(e)[:100]))
        check_completion(t2, r2, ("coverage " if cov else "") + "expand_tree(%r, siblings sharing an id)" % str(t))
    return True


def _ok(xs: List[int], n: int, lim: int) -> bool:
    return len(xs) <= n and all(0 <= x < lim for x in xs)


import itertools  # noqa: E402


def _all_streams(fn, ch, *args) -> bool:
    """every periodic random stream of period D over 4 values (the solver enumerates the trees)"""
    n = 0
    for draws in itertools.product(range(4), repeat=D):
        try:
            fn(ch, list(draws), *args)
            n += 1
        except vlib.IgnoreAttempt:
            continue
    if n == 0:
        raise vlib.IgnoreAttempt()
    return True


def h_expand(ch: List[int]) -> bool:
    """
    pre: _ok(ch, L, MAXC)
    post: _
    """
    return vlib.untraced(_all_streams, _expand, [int(c) for c in vlib.realize(ch)], False)


def h_expand_coverage(ch: List[int]) -> bool:
    """
    pre: _ok(ch, L, MAXC)
    post: _
    """
    return vlib.untraced(_all_streams, _expand, [int(c) for c in vlib.realize(ch)], True)


def _roots(t):
    """the tree itself and, for every other nonterminal label, its first inner subtree (inputs need not be rooted at <start>)"""
    out, seen = [t], {t.value}
    for _, n in nodes(t):
        if n.children and n.value not in seen:
            seen.add(n.value)
            out.append(n)
    return out


def _mutate(ch, draws, which) -> bool:
    t0 = vlib.mk_tree(vlib.decode_tree(G, "<start>", ch, allow_open=False))
    for t in _roots(t0):
        _mutate_one(t, draws, which)
    return True


def _mutate_one(t, draws, which) -> bool:
    m = Mutator(G)
    fn = {0: m.replace_subtree_randomly, 1: m.generalize_subtree, 2: m.swap_subtrees, 3: m.mutate}[which]
    try:
        res = with_stream(draws, lambda: fn(t))
    except vlib.IgnoreAttempt:
        raise
    except Exception as e:
        raise AssertionError("%s(%r) raised %s: %s" % (fn.__name__, str(t), type(e).__name__, str(e)[:100]))
    r = res if which == 3 else res.value_or(None)      # mutate returns the tree itself
    if r is None:
        return True
    what = "%s(%r)" % (fn.__name__, str(t))
    if r.is_open() or any(n.children is None for _, n in nodes(r)):
        raise AssertionError("%s: result %r is not closed" % (what, str(r)))
    if r.value != t.value:
        raise AssertionError("%s: root changed" % what)
    if not vlib.valid_tree(G, r, allow_open=False):
        raise AssertionError("%s: result %r is not a derivation tree of the grammar" % (what, str(r)))
    return True


def h_replace_subtree(ch: List[int]) -> bool:
    """
    pre: _ok(ch, L, MAXC - 1)
    post: _
    """
    return vlib.untraced(_all_streams, _mutate, [int(c) for c in vlib.realize(ch)], 0)


def h_generalize_subtree(ch: List[int]) -> bool:
    """
    pre: _ok(ch, L, MAXC - 1)
    post: _
    """
    return vlib.untraced(_all_streams, _mutate, [int(c) for c in vlib.realize(ch)], 1)


def h_swap_subtrees(ch: List[int]) -> bool:
    """
    pre: _ok(ch, L, MAXC - 1)
    post: _
    """
    return vlib.untraced(_all_streams, _mutate, [int(c) for c in vlib.realize(ch)], 2)


def h_mutate(ch: List[int]) -> bool:
    """
    pre: _ok(ch, L, MAXC - 1)
    post: _
    """
    return vlib.untraced(_all_streams, _mutate, [int(c) for c in vlib.realize(ch)], 3)
