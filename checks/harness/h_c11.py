"""C11 harness: BNF grammars survive printing and re-parsing with the same language.

The solver enumerates terminal strings over an alphabet of characters that matter for the two escape tables
(quote, backslash, control characters, '<', '>', NUL, a non-ASCII character, the characters of the escape
tokens \\n \\x00 and of the internal placeholder) and places them into small non-recursive grammar skeletons.
The real unparse_grammar and parse_bnf run natively; languages are compared exactly (finite grammars).
"""
import os
import re
from typing import List

import vlib

vlib.import_isla()

from isla.language import unparse_grammar, parse_bnf  # noqa: E402

ALPHA = ["a", '"', "\\", "\n", "\t", "<", ">", " ", "\x00", "é", "$", "n", "x", "0", "B", "\r", "\x0b", "\x7f", "|", ";", "#",
         # beyond Latin-1: the first code point above 0xFF, a BMP character and an astral one
         "\u0100", "\u20ac", "\U0001f600"]
K = len(ALPHA)
NT = int(os.environ.get("VERIF_NT", "3"))
FIRST = int(os.environ.get("VERIF_FIRST", "-2"))
USET = [int(x) for x in os.environ.get("VERIF_USET", "").split(",") if x]     # second terminal: these single characters only
RE_NT = re.compile(r"(<[^<> ]*>)")


def skeletons(T: str, U: str):
    return [
        {"<start>": [T + "<a>", ""], "<a>": ["x", T]},
        {"<start>": ["<a>" + T + "<a>"], "<a>": [U, "y"]},
        {"<start>": ["<a><b>"], "<a>": [T, T + U], "<b>": ["", U + "<a>"]} if False else
        {"<start>": ["<a><b>"], "<a>": [T, T + U], "<b>": ["", U]},
        # terminals that look almost like a nonterminal: '<' ... '>' with a blank inside
        {"<start>": ["< " + T + "><a>"], "<a>": ["x", "<" + U + " >"]},
        {"<start>": ["<a><!-- " + T + " -->"], "<a>": ["y"]},
    ]


def language(g, sym, depth=6):
    if depth == 0:
        raise vlib.IgnoreAttempt()
    out = set()
    for alt in g[sym]:
        parts = [p for p in RE_NT.split(alt) if p != ""]
        strs = {""}
        for p in parts:
            if RE_NT.fullmatch(p):
                if p not in g:
                    raise KeyError(p)
                sub = language(g, p, depth - 1)
            else:
                sub = {p}
            strs = {a + b for a in strs for b in sub}
        out |= strs
    return out


def well_formed(g) -> bool:
    for alts in g.values():
        for alt in alts:
            for p in RE_NT.findall(alt):
                if p not in g:
                    return False
    return True


def _roundtrip(ix, jx) -> bool:
    T = "".join(ALPHA[i] for i in ix)
    U = "".join(ALPHA[j] for j in jx)
    n = 0
    for g in skeletons(T, U):
        if not well_formed(g) or any(alt == "" and len(alts) == 1 for alts in g.values() for alt in alts):
            continue
        n += 1
        try:
            text = unparse_grammar(g)
        except Exception as e:
            raise AssertionError("unparse_grammar(%r) raised %s: %s" % (g, type(e).__name__, str(e)[:100]))
        try:
            g2 = parse_bnf(text)
        except BaseException as e:
            raise AssertionError("parse_bnf rejects the printed grammar %r of %r: %s: %s" % (text, g, type(e).__name__, str(e)[:100]))
        has_langle = any("<" in p for alts in g.values() for alt in alts for p in RE_NT.split(alt) if not RE_NT.fullmatch(p))
        if not has_langle and g2 != g:
            raise AssertionError("round trip changed the grammar %r into %r (printed %r)" % (g, g2, text))
        for sym in g:
            if sym not in g2:
                raise AssertionError("nonterminal %s lost: %r -> %r" % (sym, g, g2))
            try:
                l1, l2 = language(g, sym), language(g2, sym)
            except KeyError as e:
                raise AssertionError("re-parsed grammar %r refers to an undefined symbol %s (original %r)" % (g2, e, g))
            if l1 != l2:
                raise AssertionError("language of %s changed: %r vs %r (grammar %r, printed %r)" % (sym, sorted(l1)[:4], sorted(l2)[:4], g, text))
        # call history: what a caller does to a returned grammar (ISLaSolver itself adds a <start> rule in place) must not
        # change what the next parse of the same text returns
        import copy
        snapshot = copy.deepcopy(g2)
        g2["<start>"] = ["<zz>"]
        g2["<zz>"] = ["q"]
        for alts in g2.values():
            alts.append("zz")
        try:
            g3 = parse_bnf(text)
        except BaseException as e:
            raise AssertionError("second parse_bnf of the printed grammar %r raised %s" % (text, type(e).__name__))
        if g3 != snapshot:
            raise AssertionError("parse_bnf(%r) returned %r after the caller modified the previously returned grammar (first result %r)" % (text, g3, snapshot))
    if n == 0:
        raise vlib.IgnoreAttempt()
    return True


def _all_u(ix) -> bool:
    # second terminal: every single character and a few fixed two-character strings
    n = 0
    singles = range(K) if not USET else USET
    for jx in [[j] for j in singles] + [[2, 11], [1, 1], [5, 0], [2, 2]]:
        try:
            _roundtrip(ix, jx)
            n += 1
        except vlib.IgnoreAttempt:
            continue
    if n == 0:
        raise vlib.IgnoreAttempt()
    return True


def h_roundtrip(ix: List[int]) -> bool:
    """
    pre: 1 <= len(ix) <= NT and all(0 <= i < K for i in ix)
    pre: FIRST == -2 or ix[0] == FIRST
    post: _
    """
    return vlib.untraced(_all_u, [int(i) for i in vlib.realize(ix)])
