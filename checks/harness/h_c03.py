"""C03 / C06 harness: the real evaluate() against the reference semantics (checks/refsem.py).

C03 (closed trees): a symbolic digit vector is decoded (mixed radix, bijective) into a closed derivation tree
of the small assignment grammar; for that tree EVERY formula of the family is evaluated by the real
isla.evaluator.evaluate and by the reference interpreter: verdicts must be equal, never UNKNOWN, no raise.

C06 (open trees): a second decoding leaves some nonterminals open; evaluate() on the open tree must be UNKNOWN
or equal to the reference verdict of EVERY completion (same node identities) decodable from the completion
vector.
"""
import os
from typing import List

import vlib

vlib.import_isla()

from isla.derivation_tree import DerivationTree  # noqa: E402
from isla.evaluator import evaluate  # noqa: E402
from isla.language import parse_isla  # noqa: E402
from isla.isla_predicates import STANDARD_STRUCTURAL_PREDICATES, STANDARD_SEMANTIC_PREDICATES  # noqa: E402
import refsem  # noqa: E402

G = vlib.LANG3_GRAMMAR
CAN = vlib.canonical_grammar(G)
MAX_STMTS = int(os.environ.get("VERIF_STMTS", "2"))
ND = int(os.environ.get("VERIF_ND", "3"))           # number of base-8 digits of the tree code
NC = int(os.environ.get("VERIF_NC", "2"))           # digits of the completion code (C06)
PART = os.environ.get("VERIF_PART", "")              # "i/n": first digit % n == i
FSEL = os.environ.get("VERIF_FORMULAS", "")          # "i/n": formulas with index % n == i

FORMULAS = [
    # tree quantifiers, SMT atoms
    'forall <var> v in start: (= v "a")',
    'exists <var> v in start: (= v "c")',
    'forall <assgn> a in start: exists <var> v in a: (= v "b")',
    'exists <assgn> a in start: forall <var> v in a: (= v "a")',
    'forall <digit> d in start: (= (str.to.int d) 1)',
    'exists <digit> d in start: (< (str.to.int d) 1)',
    'forall <rhs> r in start: (= (str.len r) 1)',
    'forall <stmt> s in start: (> (str.len s) 6)',
    'exists <stmt> s in start: (= (str.len s) 6)',
    'forall <var> v in start: (str.in_re v (re.range "a" "b"))',
    'forall <assgn> a in start: (str.prefixof "a" a)',
    'exists <assgn> a in start: (str.contains a "1")',
    'forall <assgn> a in start: (not (str.suffixof "0" a))',
    # match expressions
    'forall <assgn> a="{<var> l} := {<rhs> r}" in start: (= l r)',
    'exists <assgn> a="{<var> l} := {<rhs> r}" in start: (= l r)',
    'forall <assgn> a="<var> := {<digit> d}" in start: (= d "1")',
    'exists <assgn> a="{<var> l} := <digit>" in start: (= l "c")',
    'forall <assgn> a="{<var> l} := {<var> r}" in start: (not (= l r))',
    'forall <stmt> s="{<assgn> a} ; {<stmt> t}" in start: (str.prefixof "a" a)',
    'forall <stmt> s="{<assgn> a}[ ; <stmt>]" in start: (str.contains a "a")',
    'exists <stmt> s="<assgn> ; {<assgn> b}" in start: (str.prefixof "b" b)',
    'forall <assgn> a="{<var> l} := {<var> r}" in start: exists <assgn> b="{<var> l2} := <rhs>" in start: (before(b, a) and (= l2 r))',
    # structural predicates
    'forall <assgn> a in start: forall <assgn> b in start: (before(a, b) or after(a, b) or same_position(a, b))',
    'exists <assgn> a in start: exists <assgn> b in start: before(a, b)',
    'forall <var> v in start: exists <assgn> a in start: inside(v, a)',
    'forall <var> v in start: forall <assgn> a in start: (not inside(a, v))',
    'forall <var> v in start: exists <assgn> a in start: direct_child(v, a)',
    'forall <var> v in start: exists <rhs> r in start: direct_child(v, r)',
    'exists <var> v in start: exists <var> w in start: different_position(v, w)',
    'forall <assgn> a in start: nth("1", a, start)',
    'exists <assgn> a in start: nth("2", a, start)',
    'forall <assgn> a in start: forall <var> v in a: nth("1", v, a)',
    'exists <stmt> s in start: exists <assgn> a in start: (nth("1", a, s) and not same_position(s, start))' if False else
    'exists <var> v in start: exists <var> w in start: (before(v, w) and (= v w))',
    'forall <var> v in start: forall <var> w in start: (level("EQ", "<stmt>", v, w) or before(v, w) or before(w, v))',
    'exists <var> v in start: exists <digit> d in start: level("GE", "<stmt>", v, d)',
    'forall <var> v in start: forall <digit> d in start: level("GT", "<stmt>", v, d)',
    'forall <assgn> a in start: forall <assgn> b in start: (not after(a, b) or before(b, a))',
    # count and numeric quantifiers (second evaluation strategy)
    'count(start, "<assgn>", "2")',
    'forall <assgn> a in start: count(a, "<var>", "1")',
    'exists int n: (count(start, "<var>", n) and (> (str.to.int n) 2))',
    'exists int n: forall <assgn> a in start: count(a, "<var>", n)',
    'forall int n: (count(start, "<assgn>", n) implies (< (str.to.int n) 2))',
    'exists int n: ((= (str.to.int n) (str.len start)) and (> (str.to.int n) 6))',
    'exists int n: exists <digit> d in start: (= (str.to.int n) (+ (str.to.int d) 1))' if False else
    'exists int n: (count(start, "<digit>", n) and exists <digit> d in start: (= d n))',
    'not (exists int n: (count(start, "<digit>", n) and (= (str.to.int n) 0)))',
    # connectives, nesting, sugar
    'forall <var> v in start: ((= v "a") or (= v "b")) and exists <digit> d in start: (= d "0")',
    '(exists <var> v in start: (= v "c")) implies (exists <digit> d in start: (= d "1"))',
    '(forall <var> v in start: (= v "a")) iff (forall <digit> d in start: (= d "0"))',
    '(exists <var> v in start: (= v "b")) xor (exists <digit> d in start: (= d "1"))',
    'not (forall <assgn> a in start: exists <digit> d in a: (= d "1"))',
    '<var> = "a"',
    '<var> = "a" or <var> = "b"',
    '<assgn>.<rhs>.<var> = "a"',
    'exists <assgn> decl: (before(decl, <assgn>) and <assgn>.<rhs>.<var> = decl.<var>)',
    'forall <assgn> a: str.len(a.<var>) = 1',
    '<stmt>..<digit> = "1"',
    'true',
    'false',
    # ancestor / descendant pairs for the order predicates
    'exists <var> v in start: exists <assgn> a in start: (inside(v, a) and after(v, a))',
    'exists <var> v in start: exists <assgn> a in start: (inside(v, a) and before(v, a))',
    'forall <var> v in start: forall <stmt> s in start: (after(v, s) implies not inside(v, s))',
    'forall <stmt> s in start: forall <assgn> a in start: (before(s, a) implies not inside(a, s))',
    'exists <stmt> s in start: exists <stmt> t in start: (inside(t, s) and (after(t, s) or before(s, t)))',
    'forall <rhs> r in start: forall <assgn> a in start: (direct_child(r, a) implies (inside(r, a) and not after(r, a) and not before(a, r)))',
    # match expressions anchored at the root nonterminal / spanning several levels
    'forall <start> s="<var> := {<digit> d} ; <stmt>" in start: (= d "1")',
    'exists <start> s="{<var> l} := {<rhs> r}" in start: (= l r)',
    'forall <start> s="{<assgn> a}[ ; <stmt>]" in start: (str.prefixof "a" a)',
    'forall <stmt> s="<var> := {<var> r} ; {<stmt> t}" in start: (str.prefixof r t)',
    'exists <stmt> s="{<var> l} := <rhs> ; {<var> m} := <rhs>" in start: (= l m)',
    # a count atom with a literal number below a numeric quantifier, occurring negatively (second strategy)
    'exists int n: ((= (str.to.int n) 1) and not count(start, "<assgn>", "7"))',
    'forall int n: (count(start, "<var>", "9") implies (= (str.to.int n) 0))',
    'exists int n: (count(start, "<assgn>", n) and (not count(start, "<digit>", "5") or (= (str.to.int n) 0)))',
    'not (exists int n: (count(start, "<var>", n) and count(start, "<assgn>", "4")))',
    # count with a recursive needle
    'count(start, "<stmt>", "2")',
    'not count(start, "<stmt>", "2")',
    'forall <stmt> s in start: (count(s, "<stmt>", "1") or count(s, "<stmt>", "2"))',
    'exists <stmt> s in start: count(s, "<stmt>", "3")',
]
PARSED = [parse_isla(t, G, STANDARD_STRUCTURAL_PREDICATES, STANDARD_SEMANTIC_PREDICATES) for t in FORMULAS]
if FSEL:
    _i, _n = (int(x) for x in FSEL.split("/"))
    SEL = [k for k in range(len(FORMULAS)) if k % _n == _i]
else:
    SEL = list(range(len(FORMULAS)))
# formula classes with a recorded known finding are checked by their own obligation (CrossHair stops at the
# first counterexample of a condition, so a known failure must not share a condition with other formulas)
import c03 as _c03  # noqa: E402
_ONLY = os.environ.get("VERIF_ONLY_CLASS", "")
_SKIP = [c for c in os.environ.get("VERIF_SKIP_CLASSES", "").split(",") if c]
if _ONLY:
    SEL = [k for k in range(len(FORMULAS)) if _c03.text_class(FORMULAS[k]) == _ONLY]
else:
    SEL = [k for k in SEL if _c03.text_class(FORMULAS[k]) not in _SKIP]


# ---------------------------------------------------------------- bijective tree numbering

def decode(code: int, allow_open: bool):
    """code -> tree spec (mixed radix over the alternatives of each node in pre-order); the number of
    statements is bounded by MAX_STMTS; left-over code rejects (IgnoreAttempt)."""
    state = [code]

    def pick(k):
        c = state[0] % k
        state[0] //= k
        return c

    def expand(label, stmts_left):
        alts = CAN[label]
        if label == "<stmt>" and stmts_left <= 1:
            alts = [CAN[label][1]]
        k = len(alts) + (1 if allow_open else 0)
        c = pick(k)
        if c == len(alts):
            return (label, None)
        out = []
        for t in alts[c]:
            if t in CAN:
                out.append(expand(t, stmts_left - 1 if (label == "<stmt>" and t == "<stmt>") else stmts_left))
            else:
                out.append(t)
        return (label, out)

    spec = expand("<start>", MAX_STMTS)
    if state[0] != 0:
        raise vlib.IgnoreAttempt()
    return spec


def complete(t, code: int):
    """close every open leaf of t in pre-order using `code` (mixed radix); node identities are retained"""
    state = [code]

    def pick(k):
        c = state[0] % k
        state[0] //= k
        return c

    def build(label, stmts_left):
        alts = CAN[label]
        if label == "<stmt>" and stmts_left <= 1:
            alts = [CAN[label][1]]
        c = pick(len(alts))
        return [build_node(x, stmts_left - 1 if (label == "<stmt>" and x == "<stmt>") else stmts_left) for x in alts[c]]

    def build_node(x, stmts_left):
        if x in CAN:
            return DerivationTree(x, build(x, stmts_left))
        return DerivationTree(x, ())

    result = t
    for path, leaf in list(t.open_leaves()):
        kids = build(leaf.value, 2)
        result = result.replace_path(path, DerivationTree(leaf.value, kids, id=leaf.id))
    if state[0] != 0:
        raise vlib.IgnoreAttempt()
    return result


def _code(digits) -> int:
    c = 0
    for d in reversed(digits):
        c = c * 8 + d
    return c


def _ok(ds: List[int], n: int) -> bool:
    if len(ds) != n or not all(0 <= d < 8 for d in ds):
        return False
    if PART:
        i, m = (int(x) for x in PART.split("/"))
        return sum(ds) % m == i
    return True


def _closed(ds) -> bool:
    t = vlib.mk_tree(decode(_code(ds), allow_open=False))
    for k in SEL:
        f = PARSED[k]
        try:
            want = refsem.ref_eval(f, t, G)
        except refsem.RefUndefined:
            continue
        try:
            got = evaluate(f, t, G)
        except Exception as e:
            raise AssertionError("formula #%d %r on %r: evaluate raised %s: %s" % (k, FORMULAS[k], str(t), type(e).__name__, str(e)[:120]))
        if str(got) != ("TRUE" if want else "FALSE"):
            raise AssertionError("formula #%d %r on %r: evaluate=%s, specification=%s" % (k, FORMULAS[k], str(t), got, want))
    return True


def h_closed(ds: List[int]) -> bool:
    """
    pre: _ok(ds, ND)
    post: _
    """
    return vlib.untraced(_closed, [int(d) for d in vlib.realize(ds)])


def _open(ds) -> bool:
    t = vlib.mk_tree(decode(_code(ds), allow_open=True))
    if not t.is_open():
        raise vlib.IgnoreAttempt()
    got = {}
    for k in SEL:
        try:
            got[k] = str(evaluate(PARSED[k], t, G))
        except Exception as e:
            raise AssertionError("formula #%d %r on open tree %r: evaluate raised %s: %s" % (k, FORMULAS[k], str(t), type(e).__name__, str(e)[:120]))
    definite = [k for k in SEL if got[k] != "UNKNOWN"]
    n_compl = 0
    for code in range(8 ** NC):
        try:
            t2 = complete(t, code)
        except vlib.IgnoreAttempt:
            continue
        n_compl += 1
        assert not t2.is_open()
        for k in definite:
            try:
                want = refsem.ref_eval(PARSED[k], t2, G)
            except refsem.RefUndefined:
                continue
            if got[k] != ("TRUE" if want else "FALSE"):
                raise AssertionError("formula #%d %r: open tree %r judged %s, but its completion %r is %s" % (k, FORMULAS[k], str(t), got[k], str(t2), want))
    if n_compl == 0:
        raise vlib.IgnoreAttempt()
    return True


def h_open(ds: List[int]) -> bool:
    """
    pre: _ok(ds, ND)
    post: _
    """
    return vlib.untraced(_open, [int(d) for d in vlib.realize(ds)])
