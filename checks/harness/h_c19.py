"""C19 harness: the isla command line honours its exit-code and output contract.

The real isla.cli.main() is driven in-process (stdout/stderr captured, SystemExit caught) on a scenario decoded
from a symbolic vector of small integers: command, how the grammar is supplied (file / --grammar / malformed /
missing), two constraint slots (none / two valid constraints / syntactically malformed / unknown nonterminal /
unknown predicate; via -c or an .isla file each), the input (10 texts incl. empty file, only a newline,
trailing newline, non-members, a JSON tree) and how it is supplied.  The expected exit code is computed from the
documented contract with the reference semantics (checks/refsem.py).
"""
import io
import json
import os
import shutil
import tempfile
from typing import List

import vlib

vlib.import_isla()

from isla import cli  # noqa: E402
from isla.language import parse_isla  # noqa: E402
import refsem  # noqa: E402

G = vlib.LANG3_GRAMMAR
BNF = '''<start> ::= <stmt>
<stmt> ::= <assgn> " ; " <stmt> | <assgn>
<assgn> ::= <var> " := " <rhs>
<rhs> ::= <var> | <digit>
<var> ::= "a" | "b" | "c"
<digit> ::= "0" | "1"
'''
BAD_BNF = '<start> ::= <stmt> | \n<stmt> := "a"\n'
CONSTRAINTS = [
    None,
    'forall <var> v in start: (not (= v "c"))',
    'exists <digit> d in start: (= d "1")',
    'forall <var> v in start: (= v "c"',                 # syntax error
    'forall <chr> v in start: (= v "c")',                 # unknown nonterminal
    'forall <var> v in start: nosuchpredicate(v, v)',      # unknown predicate
    'exists <assgn> a="{<var> l} := {<rhs> r}" in start: (= l r)',
    # predicates declared in a Python extension file (the documented way of adding predicates): one semantic, one structural
    'forall <digit> d in start: evendigit(d)',
    'exists <var> x in start: exists <var> y in start: precedes(x, y)',
]
EXTENSION = '''
from isla.language import SemanticPredicate, SemPredEvalResult, StructuralPredicate
from isla.isla_predicates import is_before


def is_even(_, number) -> SemPredEvalResult:
    if not hasattr(number, "is_complete") or not number.is_complete():
        return SemPredEvalResult(None)
    return SemPredEvalResult(int(str(number)) % 2 == 0)


def predicates():
    return {StructuralPredicate("precedes", 2, is_before), SemanticPredicate("evendigit", 1, is_even, binds_tree=False)}
'''
# independent oracles for the two extension constraints (the reference semantics does not know these predicates)
EXT_ORACLE = {
    7: lambda t: all(int(str(n)) % 2 == 0 for _, n in refsem.nodes(t) if n.value == "<digit>"),
    8: lambda t: sum(1 for _, n in refsem.nodes(t) if n.value == "<var>") >= 2,
}
INPUTS = ["a := 1", "a := b ; b := 1", "c := 1", "b := 0", "a := a", "", "\n", "a :=", "x", "a := 1\n", "@json",
          # valid JSON that is no derivation tree (must be treated as a plain, here non-member, string), and a JSON tree that
          # is not a tree of the grammar
          "2", "null", "[1]", '["<start>", [["<stmt>", []]]]']
COMMANDS = ["check", "parse", "find"]
WORK = os.environ.get("VERIF_WORK", tempfile.gettempdir())


def run_cli(argv):
    out, err = io.StringIO(), io.StringIO()
    try:
        cli.main(*argv, stdout=out, stderr=err)
        code = 0
    except SystemExit as e:
        code = e.code if isinstance(e.code, int) else (0 if e.code is None else 1)
    except BaseException as e:   # uncaught traceback
        return ("TRACEBACK %s: %s" % (type(e).__name__, str(e)[:100]), out.getvalue(), err.getvalue())
    return (code, out.getvalue(), err.getvalue())


def expected_check(inp_text, constraint_texts):
    """0 iff the input is in the grammar and satisfies all constraints (conjunction), else 1"""
    try:
        t = vlib.parse_tree(G, inp_text)
    except SyntaxError:
        return 1
    for c in constraint_texts:
        ci = CONSTRAINTS.index(c)
        if ci in EXT_ORACLE:
            if not EXT_ORACLE[ci](t):
                return 1
        elif not refsem.ref_eval(parse_isla(c, G), t, G):
            return 1
    return 0


def _scenario(v) -> bool:
    cmd_i, gsrc, c1, c1file, c2, c2file, inp_i, inp_file = v
    cmd = COMMANDS[cmd_i]
    if cmd == "find":
        inp_file = 1
    d = tempfile.mkdtemp(prefix="c19_", dir=WORK)
    try:
        argv = [cmd]
        files = []
        if gsrc == 0:
            p = os.path.join(d, "g.bnf")
            open(p, "w").write(BNF)
            files.append(p)
        elif gsrc == 1:
            argv += ["--grammar", BNF]
        elif gsrc == 2:
            p = os.path.join(d, "g.bnf")
            open(p, "w").write(BAD_BNF)
            files.append(p)
        ctexts = []
        for k, (ci, asfile) in enumerate(((c1, c1file), (c2, c2file))):
            c = CONSTRAINTS[ci]
            if c is None:
                continue
            ctexts.append(c)
            if asfile:
                p = os.path.join(d, "c%d.isla" % k)
                open(p, "w").write(c)
                files.append(p)
            else:
                argv += ["--constraint", c]
        if any(CONSTRAINTS.index(c) in EXT_ORACLE for c in ctexts):
            p = os.path.join(d, "ext.py")
            open(p, "w").write(EXTENSION)
            files.append(p)
        inp = INPUTS[inp_i]
        if inp == "@json":
            inp = json.dumps(vlib.parse_tree(G, "a := 1").to_parse_tree())
            inp_text_for_ref = "a := 1"
        else:
            inp_text_for_ref = inp[:-1] if inp.endswith("\n") and inp_file else inp
        if inp_file:
            p = os.path.join(d, "input.txt")
            open(p, "w").write(inp)
            files.append(p)
        else:
            if inp == "":
                raise vlib.IgnoreAttempt()     # an empty --input-string means "no input string"
            argv += ["--input-string", inp]
        argv += files
        code, out, err = run_cli(argv)
        what = "isla %s (grammar source %d, constraints %r, input %r as %s)" % (cmd, gsrc, ctexts, inp, "file" if inp_file else "--input-string")
        if isinstance(code, str):
            raise AssertionError("%s ended with an uncaught exception: %s" % (what, code))
        # expected exit code by the documented contract, in the order the checks are documented to apply
        if gsrc == 3:
            want = 2
        elif not ctexts:
            want = 2          # check/parse/find need a constraint
        elif gsrc == 2:
            want = 65
        elif any(CONSTRAINTS.index(c) in (3, 4, 5) for c in ctexts):
            want = 65
        else:
            want = expected_check(inp_text_for_ref, ctexts)
        if code != want:
            raise AssertionError("%s exited with %r, expected %d; stderr: %s" % (what, code, want, err.strip()[-160:]))
        if want == 65 and not err.strip():
            raise AssertionError("%s exited with 65 without an error message" % what)
        if cmd == "parse" and want == 0:
            # the emitted JSON tree must be accepted by `isla check` again
            tree_json = out.strip()
            code2, _, err2 = run_cli(["check"] + [a for a in argv[1:] if a not in files and a != inp or a in ("--grammar", "--constraint", BNF) or a in ctexts][0:0] +
                                     _rebuild(argv, files, d, tree_json))
            if code2 != 0:
                raise AssertionError("%s printed a tree that `isla check` rejects (exit %r): %s" % (what, code2, err2.strip()[-120:]))
        return True
    finally:
        shutil.rmtree(d, ignore_errors=True)


def _rebuild(argv, files, d, tree_json):
    """same grammar/constraint arguments, input replaced by the JSON tree file"""
    out = []
    skip = False
    for a in argv[1:]:
        if skip:
            skip = False
            continue
        if a == "--input-string":
            skip = True
            continue
        if a.endswith("input.txt"):
            continue
        out.append(a)
    p = os.path.join(d, "tree.json")
    open(p, "w").write(tree_json)
    return out + [p]


RANGES = [len(COMMANDS), 4, len(CONSTRAINTS), 2, len(CONSTRAINTS), 2]
FIX = os.environ.get("VERIF_FIX", "")     # "i=v,j=w": fixed components (partition)
FIXED = dict((int(a), int(b)) for a, b in (x.split("=") for x in FIX.split(",") if x))


C2SET = [int(x) for x in os.environ.get("VERIF_C2SET", "").split(",") if x]
INPSET = [int(x) for x in os.environ.get("VERIF_INPSET", "").split(",") if x]


def _ok(v: List[int]) -> bool:
    if len(v) != 6:
        return False
    if C2SET and v[4] not in C2SET:
        return False
    for i, x in enumerate(v):
        if not (0 <= x < RANGES[i]):
            return False
        if i in FIXED and x != FIXED[i]:
            return False
    return True


def _all_inputs(v) -> bool:
    n = 0
    for inp_i in (INPSET or range(len(INPUTS))):
        for inp_file in (0, 1):
            try:
                _scenario(list(v) + [inp_i, inp_file])
                n += 1
            except vlib.IgnoreAttempt:
                continue
    return n > 0


def h_cli(v: List[int]) -> bool:
    """
    pre: _ok(v)
    post: _
    """
    return vlib.untraced(_all_inputs, [int(x) for x in vlib.realize(v)])


# ---------------------------------------------------------------- solve / repair / mutate (they run the solver loop)

GEN_COMMANDS = ["solve", "repair", "mutate"]
GEN_INPUTS = [int(x) for x in os.environ.get("VERIF_GEN_INPUTS", "0,2,3,7,11").split(",")]


def _gen_scenario(cmd_i, gsrc, c1, c1file, inp_i, inp_file) -> bool:
    cmd = GEN_COMMANDS[cmd_i]
    d = tempfile.mkdtemp(prefix="c19g_", dir=WORK)
    try:
        argv = [cmd]
        files = []
        if gsrc == 0:
            p = os.path.join(d, "g.bnf")
            open(p, "w").write(BNF)
            files.append(p)
        elif gsrc == 1:
            argv += ["--grammar", BNF]
        elif gsrc == 2:
            p = os.path.join(d, "g.bnf")
            open(p, "w").write(BAD_BNF)
            files.append(p)
        c = CONSTRAINTS[c1]
        ctexts = [] if c is None else [c]
        if c is not None:
            if c1file:
                p = os.path.join(d, "c.isla")
                open(p, "w").write(c)
                files.append(p)
            else:
                argv += ["--constraint", c]
        if c1 in EXT_ORACLE:
            p = os.path.join(d, "ext.py")
            open(p, "w").write(EXTENSION)
            files.append(p)
        inp = None
        if cmd == "solve":
            argv += ["-n", "3", "-t", "10"]
        else:
            inp = INPUTS[inp_i]
            if inp_file:
                p = os.path.join(d, "input.txt")
                open(p, "w").write(inp)
                files.append(p)
            else:
                if inp == "":
                    raise vlib.IgnoreAttempt()
                argv += ["--input-string", inp]
            argv += ["-t", "5"]
        argv += files
        code, out, err = run_cli(argv)
        what = "isla %s (grammar source %d, constraint %r%s)" % (cmd, gsrc, c, "" if inp is None else ", input %r as %s" % (inp, "file" if inp_file else "--input-string"))
        if isinstance(code, str):
            raise AssertionError("%s ended with an uncaught exception: %s" % (what, code))
        if gsrc == 3 or (not ctexts and cmd != "solve"):      # `isla solve` works without a constraint (plain grammar-based generation)
            if code != 2:
                raise AssertionError("%s exited with %r, expected 2 (missing grammar / constraint); stderr: %s" % (what, code, err.strip()[-160:]))
            return True
        if gsrc == 2 or c1 in (3, 4, 5):
            if code != 65 or not err.strip():
                raise AssertionError("%s exited with %r, expected 65 with a message; stderr: %s" % (what, code, err.strip()[-160:]))
            return True
        if code not in (0, 1):
            raise AssertionError("%s exited with %r; stderr: %s" % (what, code, err.strip()[-160:]))
        if cmd == "solve":
            for line in out.splitlines():
                if expected_check(line, ctexts) != 0:
                    raise AssertionError("%s printed %r, which `isla check` must reject" % (what, line))
                code2, _, err2 = run_cli(["check", "--grammar", BNF, "--constraint", c if c is not None else "true", "--input-string", line] + [f for f in files if f.endswith("ext.py")])
                if code2 != 0:
                    raise AssertionError("%s printed %r, which `isla check` rejects (exit %r): %s" % (what, line, code2, err2.strip()[-100:]))
            return True
        inp_text = inp[:-1] if inp.endswith("\n") and inp_file else inp
        member = True
        try:
            vlib.parse_tree(G, inp_text)
        except SyntaxError:
            member = False
        if not member:
            if code != 1:
                raise AssertionError("%s exited with %r for an input outside the grammar, expected 1" % (what, code))
            return True
        if code == 0:
            result = out[:-1] if out.endswith("\n") else out
            if expected_check(result, ctexts) != 0:
                raise AssertionError("%s printed %r, which does not satisfy the constraint" % (what, result))
            if cmd == "repair" and expected_check(inp_text, ctexts) == 0 and result != inp_text:
                raise AssertionError("%s changed an already valid input into %r" % (what, result))
        return True
    finally:
        shutil.rmtree(d, ignore_errors=True)


def _gen_all(v) -> bool:
    cmd_i, gsrc, c1, c1file = v
    n = 0
    if cmd_i == 0:
        _gen_scenario(cmd_i, gsrc, c1, c1file, 0, 0)
        return True
    for inp_i in GEN_INPUTS:
        for inp_file in (0, 1):
            try:
                _gen_scenario(cmd_i, gsrc, c1, c1file, inp_i, inp_file)
                n += 1
            except vlib.IgnoreAttempt:
                continue
    return n > 0


GEN_FIX = os.environ.get("VERIF_GEN_FIX", "")
GEN_FIXED = dict((int(a), int(b)) for a, b in (x.split("=") for x in GEN_FIX.split(",") if x))


def _ok_gen(v: List[int]) -> bool:
    if len(v) != 4:
        return False
    lims = [3, 4, len(CONSTRAINTS), 2]
    for i, x in enumerate(v):
        if not (0 <= x < lims[i]):
            return False
        if i in GEN_FIXED and x != GEN_FIXED[i]:
            return False
    return True


def h_cli_gen(v: List[int]) -> bool:
    """
    pre: _ok_gen(v)
    post: _
    """
    return vlib.untraced(_gen_all, [int(x) for x in vlib.realize(v)])
