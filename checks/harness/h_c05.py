"""C05-O4: construct_result plumbing.  The real isla.z3_helpers.construct_result is run by CrossHair
with stub children (identity closures over named parameters, literals, a nested closure with its own
parameter order) and symbolic string instantiations; the result must equal direct evaluation,
whatever order `params` came out in."""
from typing import List

import vlib

vlib.import_isla()

from isla.z3_helpers import construct_result  # noqa: E402


def _ident(args):
    return args[0]


def h_two_vars(sx: str, sy: str, lit: str) -> bool:
    """
    pre: len(sx) <= 3 and len(sy) <= 3 and len(lit) <= 2
    post: _
    """
    children = ((("x",), _ident), ((), lit), (("y",), _ident))
    params, closure = construct_result(lambda a: a[0] + "|" + a[1] + "|" + a[2], children)
    inst = {"x": sx, "y": sy}
    got = closure(tuple(inst[p] for p in params))
    return set(params) == {"x", "y"} and got == sx + "|" + lit + "|" + sy


def h_nested_permuted(sx: str, sy: str, sz: str) -> bool:
    """
    pre: len(sx) <= 2 and len(sy) <= 2 and len(sz) <= 2
    post: _
    """
    # inner child has parameter order (z, x); the outer result may order params differently
    inner = construct_result(lambda a: a[0] + "<" + a[1], ((("z",), _ident), (("x",), _ident)))
    children = ((("y",), _ident), inner, (("x",), _ident))
    params, closure = construct_result(lambda a: a[0] + "," + a[1] + "," + a[2], children)
    inst = {"x": sx, "y": sy, "z": sz}
    got = closure(tuple(inst[p] for p in params))
    return sorted(params) == ["x", "y", "z"] and got == sy + "," + sz + "<" + sx + "," + sx


def h_ints_and_bools(a: int, b: int, sx: str) -> bool:
    """
    pre: len(sx) <= 3
    post: _
    """
    children = (((), a), (("x",), lambda args: len(args[0])), ((), b))
    params, closure = construct_result(lambda v: v[0] + v[1] < v[2], children)
    got = closure((sx,))
    return params == ("x",) and got == (a + len(sx) < b)


def h_ground(a: int, b: int) -> bool:
    """
    post: _
    """
    params, value = construct_result(lambda v: v[0] - v[1], (((), a), ((), b)))
    return params == () and value == a - b
