"""C17 harness: serialized trees and constraints round-trip without damaging the original.

(a) trees: a decoded tree, then every sequence (length <= VERIF_K) over {to_json, pickle.dumps, k_paths, structural_hash,
    hash, str, from_json(to_json)}: afterwards the ORIGINAL object still answers every read method like a fresh clone,
    and JSON / pickle decoding (in a simulated fresh interpreter: DerivationTree.next_id reset) gives the same structure,
    node ids and string, with next_id above every decoded id.
(b) SMT formulas: string literals over an escape-relevant alphabet, built through the z3 API inside several atoms:
    pickle.loads(pickle.dumps(f)) must be the same constraint.
(c) CLI JSON: derivation_tree_to_json(t) read back with from_parse_tree(json.loads(.)) is the same tree.
"""
import itertools
import json
import os
import pickle
from typing import List

import vlib

vlib.import_isla()

import z3  # noqa: E402
from grammar_graph import gg  # noqa: E402
from isla import language  # noqa: E402
from isla.cli import derivation_tree_to_json  # noqa: E402
from isla.derivation_tree import DerivationTree  # noqa: E402
from isla.z3_helpers import z3_eq  # noqa: E402
import h_c16  # reference traversal / invariants  # noqa: E402

G = h_c16.GRAMMARS[0]
GRAPH = gg.GrammarGraph.from_grammar(G)
MAXC = vlib.max_choice(G, True)
L = int(os.environ.get("VERIF_L", "4"))
K = int(os.environ.get("VERIF_K", "2"))
NLIT = int(os.environ.get("VERIF_NLIT", "2"))
OPS = ["to_json", "pickle", "k_paths", "structural_hash", "hash", "str", "json_roundtrip", "concrete_k_paths"]


def apply_op(t, op):
    if op == "to_json":
        t.to_json()
    elif op == "pickle":
        pickle.dumps(t)
    elif op == "k_paths":
        t.k_paths(GRAPH, 3)
    elif op == "concrete_k_paths":
        t.k_paths(GRAPH, 2, include_potential_paths=False)
    elif op == "structural_hash":
        t.structural_hash()
    elif op == "hash":
        hash(t)
    elif op == "str":
        str(t)
    elif op == "json_roundtrip":
        DerivationTree.from_json(t.to_json())


def read_all(t):
    """every public read method; raises if one of them fails"""
    return (str(t), t.to_string(), t.is_open(), len(t), [p for p, _ in t.paths()], t.structural_hash(), t.depth(),
            sorted(map(str, t.k_paths(GRAPH, 3))), sorted(map(str, t.k_paths(GRAPH, 2, include_potential_paths=False))),
            t.k_coverage(GRAPH, 2), sorted(t.nonterminals()), [p for p, _ in t.open_leaves()], t.has_unique_ids(),
            t.to_parse_tree())


def same_tree(a, b) -> str:
    na, nb = h_c16.nodes(a), h_c16.nodes(b)
    if [(p, n.value, n.id, n.children is None) for p, n in na] != [(p, n.value, n.id, n.children is None) for p, n in nb]:
        return "structure / ids differ"
    if str(a) != str(b):
        return "strings differ"
    return ""


def mk_tree_topdown(spec):
    """like vlib.mk_tree, but node ids grow from the root downwards (as in trees grown by expansion)"""
    def count(sp):
        return 1 if isinstance(sp, str) or sp[1] is None else 1 + sum(count(c) for c in sp[1])
    base = DerivationTree.next_id
    DerivationTree.next_id += count(spec)
    counter = [base]

    def build(sp):
        my = counter[0]
        counter[0] += 1
        if isinstance(sp, str):
            return DerivationTree(sp, (), id=my)
        label, children = sp
        if children is None:
            return DerivationTree(label, None, id=my)
        return DerivationTree(label, tuple(build(c) for c in children), id=my)
    return build(spec)


def _tree_ops(ch) -> bool:
    spec = vlib.decode_tree(G, "<start>", ch, allow_open=True, close_rest=False)
    for k_seq, seq in enumerate(itertools.chain.from_iterable(itertools.product(OPS, repeat=k) for k in range(0, K + 1))):
        t = vlib.mk_tree(spec) if k_seq % 2 else mk_tree_topdown(spec)
        want = read_all(h_c16.clone(t))
        for op in seq:
            try:
                apply_op(t, op)
            except Exception as e:
                raise AssertionError("%s raised %s: %s after %s on %r" % (op, type(e).__name__, str(e)[:80], list(seq), str(t)))
        try:
            got = read_all(t)
        except Exception as e:
            raise AssertionError("after %s the original tree %r is damaged: %s: %s" % (list(seq), str(t), type(e).__name__, str(e)[:100]))
        if got != want:
            raise AssertionError("after %s the original tree %r answers differently" % (list(seq), str(t)))
        r = h_c16.inv(t)
        if r:
            raise AssertionError("after %s: %s" % (list(seq), r))
        # decoding in a (simulated) fresh interpreter
        js, pk = t.to_json(), pickle.dumps(t)
        for name, dec in (("from_json", lambda: DerivationTree.from_json(js)), ("pickle.loads", lambda: pickle.loads(pk))):
            saved = DerivationTree.next_id
            try:
                DerivationTree.next_id = 0
                d = dec()
                r = same_tree(t, d)
                if r:
                    raise AssertionError("%s after %s on %r: %s" % (name, list(seq), str(t), r))
                mx = max(n.id for _, n in h_c16.nodes(d))
                if DerivationTree.next_id <= mx:
                    raise AssertionError("%s of %r leaves next_id=%d although the decoded tree uses id %d: fresh nodes will reuse ids"
                                         % (name, str(t), DerivationTree.next_id, mx))
                fresh = DerivationTree("x", ())
                if fresh.id in {n.id for _, n in h_c16.nodes(d)}:
                    raise AssertionError("%s of %r: a fresh node got id %d which the decoded tree already uses" % (name, str(t), fresh.id))
                r = h_c16.inv(d, identity=False)
                if r:
                    raise AssertionError("%s: decoded tree broken: %s" % (name, r))
            finally:
                DerivationTree.next_id = max(saved, DerivationTree.next_id)
        # CLI JSON
        if not t.is_open():
            back = DerivationTree.from_parse_tree(json.loads(derivation_tree_to_json(t)))
            if not h_c16.struct_eq(t, back) or str(back) != str(t):
                raise AssertionError("CLI JSON of %r reads back as %r" % (str(t), str(back)))
    return True


def h_tree_ops(ch: List[int]) -> bool:
    """
    pre: len(ch) <= L and all(0 <= c < MAXC for c in ch)
    post: _
    """
    return vlib.untraced(_tree_ops, [int(c) for c in vlib.realize(ch)])


# ---------------------------------------------------------------- SMT formulas

ALPHA = ["a", '"', "\\", "\n", "\t", "é", "\x00", " ", "u", "{", "}", "0", "\U0001F600", "'", "\x7f"]
KA = len(ALPHA)


def _smt(ix) -> bool:
    lit = "".join(ALPHA[i] for i in ix)
    x = language.Variable("x", "<a>")
    sx = x.to_smt()
    atoms = [z3_eq(sx, z3.StringVal(lit)), z3.PrefixOf(z3.StringVal(lit), sx), z3.InRe(sx, z3.Re(z3.StringVal(lit))),
             z3_eq(z3.Length(sx), z3.Length(z3.StringVal(lit))), z3.And(z3.Contains(sx, z3.StringVal(lit)), z3_eq(sx, z3.StringVal("a" + lit)))]
    for a in atoms:
        f = language.SMTFormula(a, x)
        try:
            g = pickle.loads(pickle.dumps(f))
        except BaseException as e:
            raise AssertionError("pickled constraint %s with literal %r cannot be restored: %s: %s" % (a.sexpr()[:60], lit, type(e).__name__, str(e)[:80]))
        if not (g == f):
            # structural difference: decide semantically
            s = z3.Solver()
            s.set("timeout", 3000)
            s.add(z3.Xor(f.formula, g.formula))
            r = s.check()
            if r != z3.unsat:
                raise AssertionError("constraint with literal %r changed by pickling: %s became %s (z3: %s)" % (lit, f.formula.sexpr()[:80], g.formula.sexpr()[:80], r))
        if str(f.formula.sexpr()) != str(pickle.loads(pickle.dumps(f)).formula.sexpr()) and False:
            pass
    # the original is unchanged
    return True


def h_smt(ix: List[int]) -> bool:
    """
    pre: 0 <= len(ix) <= NLIT and all(0 <= i < KA for i in ix)
    post: _
    """
    return vlib.untraced(_smt, [int(i) for i in vlib.realize(ix)])
