"""C13 harness: tree insertion yields valid trees keeping all original nodes and the new tree.

The solver enumerates host trees (decoded from a symbolic choice vector; open or closed); for each host EVERY insertable
tree of a small portfolio (open leaf / smallest closed tree / one-step expansion of every nonterminal) is inserted with
EVERY non-empty combination of the three insertion methods by the real existential_helpers.insert_tree.
"""
import os
from typing import List

import vlib

vlib.import_isla()

from grammar_graph import gg  # noqa: E402
from isla.derivation_tree import DerivationTree  # noqa: E402
from isla.existential_helpers import insert_tree  # noqa: E402
from isla.helpers import canonical  # noqa: E402
import h_c16  # noqa: E402

GI = int(os.environ.get("VERIF_G13", "0"))
L = int(os.environ.get("VERIF_L", "4"))
GRAMMARS = [
    {"<start>": ["<stmt>"], "<stmt>": ["<assgn> ; <stmt>", "<assgn>"], "<assgn>": ["<var> := <rhs>"], "<rhs>": ["<var>", "<digit>"],
     "<var>": ["a", "b"], "<digit>": ["0", "1"]},
    {"<start>": ["<tree>"], "<tree>": ["<<id>><inner></<id>>", "<<id>/>"], "<inner>": ["<tree><inner>", "<tree>", "<text>"],
     "<text>": ["x"], "<id>": ["a", "b"]},
    # left recursion / alternatives of different length with the shared nonterminal at different positions
    {"<start>": ["<expr>"], "<expr>": ["<expr>+<term>", "<term>"], "<term>": ["(<expr>)", "<digit>"], "<digit>": ["1", "2"]},
    {"<start>": ["<cfg>"], "<cfg>": ["<setting><cfg>", "<setting>"], "<setting>": ["<name>=<value>;", "<value> <fallback>"],
     "<fallback>": ["<value>", "none"], "<name>": ["k"], "<value>": ["1", "v"]},
    # a terminal that looks like a nonterminal (contains a blank) next to the recursion
    {"<start>": ["<doc>"], "<doc>": ["<line><br /><doc>", "<line>"], "<line>": ["t", "<b >u"]},
    # a recursive part of the host from which the inserted nonterminal cannot be reached
    {"<start>": ["<prog>"], "<prog>": ["<decl>;<expr>", "<expr>"], "<decl>": ["d"], "<expr>": ["<expr>+<term>", "<term>"], "<term>": ["1", "(<expr>)"]},
    # a chain of unit productions above the insertion point (<block_statement> ::= <statement>, <statement> ::= <block>)
    {"<start>": ["<statement>"], "<statement>": ["<block>", "<id>;"], "<block>": ["{<statements>}"], "<statements>": ["<block_statement><statements>", ""],
     "<block_statement>": ["<statement>", "<declaration>"], "<declaration>": ["int <id>;"], "<id>": ["a", "b"]},
    # the start symbol occurs on a right-hand side
    {"<start>": ["<stmt>;<start>", "<stmt>"], "<stmt>": ["{<start>}", "<id>"], "<id>": ["a", "b"]},
]
G = GRAMMARS[GI]
CAN = canonical(G)
VCAN = vlib.canonical_grammar(G)
GRAPH = gg.GrammarGraph.from_grammar(G)
MAXC = vlib.max_choice(G, True)
PREFIX = [int(x) for x in os.environ.get("VERIF_PREFIX", "").split(",") if x != ""]


def insertables():
    out = []
    for nt in G:
        if nt == "<start>":
            continue
        out.append((nt + " open", lambda nt=nt: DerivationTree(nt, None)))
        out.append((nt + " closed", lambda nt=nt: vlib.mk_tree(vlib.decode_tree(G, nt, [], allow_open=False))))
        out.append((nt + " one step", lambda nt=nt: vlib.mk_tree((nt, [(t, None) if t in VCAN else t for t in VCAN[nt][0]]))))
    return out


INS = insertables()


def extends(r, new) -> bool:
    """r is `new` with (possibly) its open leaves filled in: same ids and labels on every expanded node of `new`;
    an open leaf of `new` may have been replaced by any subtree with the same label (context addition puts the
    host's subtree there)"""
    if r.value != new.value:
        return False
    if new.children is None:
        return True
    if r.id != new.id or r.children is None or len(r.children) != len(new.children):
        return False
    return all(extends(a, b) for a, b in zip(r.children, new.children))


def _insert(ch, ctx_closed=False) -> bool:
    """ctx_closed=False: every case except (context addition enabled AND inserted tree closed);
       ctx_closed=True : exactly those cases (own obligation: known finding on the pinned tree)"""
    host_spec = vlib.decode_tree(G, "<start>", ch, allow_open=True, close_rest=False)
    n_calls = 0
    # hosts: the decoded tree and, for every other nonterminal, its first inner subtree (a host need not be rooted at <start>;
    # for these only 'context addition' alone and all methods together are run)
    specs = [(host_spec, range(1, 8))]
    seen = {"<start>"}

    def sub(spec):
        if isinstance(spec, str) or spec[1] is None:
            return
        if spec[0] not in seen:
            seen.add(spec[0])
            specs.append((spec, (4, 7)))
        for c in spec[1]:
            sub(c)
    sub(host_spec)
    for name, mk in INS:
      for the_spec, the_methods in specs:
        for methods in the_methods:
            if ((methods & 4) != 0 and name.endswith(" closed")) != ctx_closed:
                continue
            host = vlib.mk_tree(the_spec)
            new = mk()
            what = "insert_tree(%s into %r, methods=%s)" % (name, str(host), bin(methods))
            try:
                results = list(insert_tree(CAN, new, host, graph=GRAPH, methods=methods, max_num_solutions=20))
            except Exception as e:
                raise AssertionError("%s raised %s: %s" % (what, type(e).__name__, str(e)[:120]))
            n_calls += 1
            host_nodes = [(n.id, n.value) for _, n in h_c16.nodes(host)]
            for r in results:
                if r.value != host.value:
                    raise AssertionError("%s: result %r has root %s" % (what, str(r), r.value))
                if not vlib.valid_tree(G, r, allow_open=True):
                    raise AssertionError("%s: result %r is not a derivation tree of the grammar" % (what, str(r)))
                ids = {}
                for _, n in h_c16.nodes(r):
                    ids.setdefault(n.id, []).append(n.value)
                for i, v in host_nodes:
                    if ids.get(i) != [v]:
                        raise AssertionError("%s: original node %s (id %d) occurs %r times in result %r" % (what, v, i, ids.get(i), str(r)))
                p = r.find_node(new.id)
                if p is None or not extends(r.get_subtree(p), new):
                    raise AssertionError("%s: the inserted tree is not contained in result %r" % (what, str(r)))
                rr = h_c16.inv(r, identity=False)
                if rr:
                    raise AssertionError("%s: result %r inconsistent: %s" % (what, str(r), rr))
    return n_calls > 0


def _ok(ch: List[int]) -> bool:
    if len(ch) > L or not all(0 <= c < MAXC for c in ch):
        return False
    if PREFIX:
        return len(ch) >= len(PREFIX) and all(ch[i] == PREFIX[i] for i in range(len(PREFIX)))
    return True


def h_insert(ch: List[int]) -> bool:
    """
    pre: _ok(ch)
    post: _
    """
    return vlib.untraced(_insert, [int(c) for c in vlib.realize(ch)])


def h_insert_ctx_closed(ch: List[int]) -> bool:
    """
    pre: _ok(ch)
    post: _
    """
    return vlib.untraced(_insert, [int(c) for c in vlib.realize(ch)], True)
