"""C11 — BNF grammars survive printing and re-parsing with the same language (CrossHair, [decoder])."""
import os
import sys

import common
import xh

HARNESS = os.path.join(os.path.dirname(__file__), "harness", "h_c11.py")


def keyfn(r):
    err = r["replay"].get("err") or ""
    if "rejects the printed grammar" in err:
        cls = "reparse-rejected"
    elif "round trip changed the grammar" in err:
        cls = "not-identical"
    elif "language of" in err or "lost" in err or "undefined symbol" in err:
        cls = "language-changed"
    elif "unparse_grammar" in err:
        cls = "unparse-raises"
    else:
        cls = "other"
    return ("roundtrip/" + cls, "terminal indices %s: %s" % (r["args"], err[:400]))


def main(tier, only):
    sys.path.insert(0, os.path.dirname(HARNESS))
    import h_c11
    run = common.Run("C11", tier, "other", [common.src_range("src/isla/language.py", f) for f in ["unparse_grammar", "parse_bnf", "BnfEmitter"]] +
                     [common.src_range("src/isla/helpers.py", "instantiate_escaped_symbols")])
    nt, to = (2, 240) if tier == "quick" else (3, 2400)
    uset = "0,1,2,3,5,6,8,9,21,22,23" if tier == "quick" else ""     # quick: the second terminal ranges over 11 of the characters
    cfgs = [dict(tag="first%d" % i, env={"VERIF_NT": str(nt), "VERIF_FIRST": str(i), "VERIF_USET": uset}, only=None, timeout=to) for i in range(h_c11.K)]
    run.bounds = dict(terminals="every terminal string of 1..%d characters over %d characters %r, combined with a second terminal (%s + 4 two-character strings); after each round trip the returned grammar is modified in place and the text parsed again" % (nt, h_c11.K, h_c11.ALPHA, "11 of the single characters" if uset else "every single character"),
                      skeletons="3 non-recursive grammar skeletons (terminal next to nonterminals, repeated, with an empty alternative)")
    run.engines = dict(crosshair="crosshair-tool 0.0.110 on z3 4.11.2")
    run.trusted = ["exact language enumeration of the finite grammars in the harness"]
    run.assumptions = ["[decoder]: the solver enumerates the character index vectors; unparse_grammar / parse_bnf (ANTLR) run natively",
                       "terminals that would read as an undefined nonterminal reference are not well-formed grammars and are skipped"]
    run.outside = ["longer terminals, characters outside the alphabet, recursive grammars"]
    res = xh.check_many("C11", HARNESS, cfgs, twin_timeout=120)
    xh.record(run, res, "", keyfn)
    return run.finish(
        "For every grammar of the bounded family the real unparse_grammar output is re-parsed by the real parse_bnf: it must be accepted, be the identical "
        "grammar when no terminal contains '<', and derive exactly the same language from every nonterminal of the original.")


def replay(d):
    return xh.replay_file(d)
