"""C10 — the parser accepts exactly the grammar's language and returns faithful trees (CrossHair, [decoder])."""
import os
import sys

import common
import xh

HARNESS = os.path.join(os.path.dirname(__file__), "harness", "h_c10.py")


def keyfn(r):
    g = r["env"].get("VERIF_G")
    st = r["replay"]
    kind = "raises-" + st["err"].split(":")[0] if st.get("status") == "raised" else "wrong-answer"
    return ("%s/g%s/%s" % (r["name"], g, kind),
            "%s on grammar %s, input indices %s: %s" % (r["name"], g, r["args"], st))


def main(tier, only):
    sys.path.insert(0, os.path.dirname(HARNESS))
    os.environ.setdefault("VERIF_G", "0")
    import h_c10
    run = common.Run("C10", tier, "other", [common.src_range("src/isla/parser.py", f) for f in
                     ["EarleyParser.chart_parse", "EarleyParser.fill_chart", "EarleyParser.predict", "EarleyParser.scan",
                      "EarleyParser.earley_complete", "EarleyParser.parse_prefix", "EarleyParser.parse", "EarleyParser.parse_paths",
                      "EarleyParser.extract_trees", "nullable", "fixpoint", "canonical"]] +
                     [common.src_range("src/isla/solver.py", "ISLaSolver.parse")])
    plan = {g: ["parse", "solver_parse"] for g in range(len(h_c10.GRAMMARS))}
    nt_grammars = (1, 6, 7, 10) if tier == "quick" else tuple(range(len(h_c10.GRAMMARS)))
    cfgs = []
    if tier == "quick":
        N, to = 4, 200
        for g, fns in plan.items():
            cfgs.append(dict(tag="g%d" % g, env={"VERIF_G": str(g), "VERIF_N": str(N), "VERIF_FIRST": "-2"}, only=fns, timeout=to))
        for g in nt_grammars:      # parse from every nonterminal: shorter strings (one parser construction per call and nonterminal)
            cfgs.append(dict(tag="g%d.nt" % g, env={"VERIF_G": str(g), "VERIF_N": "3", "VERIF_FIRST": "-2"}, only=["solver_parse_nt"], timeout=to))
    else:
        N, to = 6, 1500
        for g, fns in plan.items():
            entry, gram = h_c10.GRAMMARS[g]
            k = len(h_c10._alphabet(gram))
            for first in range(-1, k):
                cfgs.append(dict(tag="g%d.first%d" % (g, first), env={"VERIF_G": str(g), "VERIF_N": str(N), "VERIF_FIRST": str(first)},
                                 only=fns, timeout=to))
        for g in nt_grammars:
            cfgs.append(dict(tag="g%d.nt" % g, env={"VERIF_G": str(g), "VERIF_N": "4", "VERIF_FIRST": "-2"}, only=["solver_parse_nt"], timeout=to))
    run.bounds = dict(string_length_max=N, alphabets="all characters of the grammar's terminals + one fresh character",
                      grammars={g: h_c10.GRAMMARS[g][1] for g in plan}, per_condition_timeout_s=to)
    run.engines = dict(crosshair="crosshair-tool 0.0.110 on z3 4.11.2")
    run.trusted = ["fixpoint recogniser derives() and tree validator in checks/harness/h_c10.py, checks/vlib.py"]
    run.assumptions = ["alphabet abstraction: the parser compares input characters with grammar characters by == only, so one fresh "
                       "character stands for every character not occurring in the grammar",
                       "[decoder]: every feasible CrossHair path is one input string; 'Confirmed over all paths' = all strings of the partition; "
                       "after the index list has been realised the parser runs natively (tracer off): nothing symbolic reaches it"]
    run.outside = ["strings longer than %d" % N, "grammars outside the portfolio", "infinitely ambiguous grammars (excluded by the property)"]
    res = xh.check_many("C10", HARNESS, cfgs, twin_timeout=90)
    xh.record(run, res, "", keyfn, bounds="len<=%d" % N)
    return run.finish(
        "Real EarleyParser.parse and ISLaSolver.parse executed by CrossHair on a symbolic index list decoded into a string over the "
        "grammar's alphabet abstraction (all strings up to length %d, partitioned by first character over the cores), compared with an "
        "independent fixpoint recogniser; yielded trees are validated against the grammar and must spell the input." % N)


def replay(d):
    return xh.replay_file(d)
