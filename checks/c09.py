"""C09 — negation and normal-form rewrites preserve meaning (translation validation, E-TV)."""
from __future__ import annotations

import common

REWRITES = ["Formula.__neg__", "SMTFormula.__neg__", "convert_to_nnf", "convert_to_dnf",
            "ensure_unique_bound_variables", "Formula.__and__", "Formula.__or__"]


def record_tv(run: common.Run, outs, prefix: str = ""):
    """Shared by C07/C08/C09: map worker outputs to evidence."""
    guards_sat = guards_total = 0
    run.extra.setdefault("guard_unsat", 0)
    samples = []
    for o in outs:
        if o.get("rejected"):
            run.extra.setdefault("rejected_by_parse_isla", []).append("%s -> %s" % (o["desc"][:200], o["rejected"][:160]))
            continue
        if o.get("build_error"):
            run.harness_error("program could not be built: %s: %s" % (o["desc"], o["build_error"]))
            continue
        run.programs += 1
        if o.get("guard") is not None:
            guards_total += 1
            guards_sat += o["guard"] == "sat"
            if o["guard"] == "unsat":
                run.extra["guard_unsat"] += 1
                run.harness_error("vacuity guard: encoding does not distinguish the program from its wrongly negated variant: " + o["desc"][:200])
        for r in o["results"]:
            name = "%s%s :: %s" % (prefix, r["name"], o["desc"][:160])
            if r["verdict"] == "discharged":
                run.ok(name, "z3-4.11.2+z3-5.1.0", solver_s=r.get("solver_s", 0.0), z3=r.get("z3"), z3new=r.get("z3new"))
            elif r["verdict"] == "inconclusive":
                run.inconclusive(name, "z3", r.get("reason", ""), solver_s=r.get("solver_s", 0.0))
            else:
                run.disagreements_checked += 1
                run.violation(name, r["key"], "z3+replay(evaluate)", r["what"] + " :: program " + o["desc"],
                              dict(kind="tv", job=o["job"], rewrite=r["name"], witness=r.get("witness")),
                              solver_s=r.get("solver_s", 0.0))
        if len(samples) < 8 and o["results"]:
            samples.append(dict(program=o["desc"], obligations=[dict(name=r["name"], verdict=r["verdict"], z3=r.get("z3")) for r in o["results"]]))
    return guards_sat, guards_total, samples


def main(tier, only):
    import tvlib
    run = common.Run("C09", tier, "translation_validation",
                     [common.src_range("src/isla/language.py", f) for f in
                      ["Formula.__neg__", "Formula.__and__", "Formula.__or__", "SMTFormula.__neg__", "convert_to_nnf",
                       "convert_smt_formula_to_nnf", "convert_quantified_formula_to_nnf", "convert_to_dnf",
                       "ensure_unique_bound_variables", "fresh_vars"]] +
                     [common.src_range("src/isla/z3_helpers.py", "z3_push_in_negations")])
    jobs = [dict(kind="text", text=t) for t in tvlib.core_texts(tier, common.SEED)]
    jobs += [dict(kind="ast", index=i, tier=tier) for i in range(len(tvlib.ast_family(tier)))]
    outs = tvlib.run_pool(tvlib.c09_worker, jobs, common.NCPU)
    gs, gt, samples = record_tv(run, outs)
    if gt == 0 or gs < 0.6 * gt:
        run.harness_error("vacuity guard: seeded wrong rewrite refuted for only %d of %d programs" % (gs, gt))
    run.extra["vacuity_guard"] = "seeded wrong negation (outermost quantifier not flipped) refuted (sat) for %d of %d programs" % (gs, gt)
    run.bounds = dict(programs=len(jobs), grammar="assignment language (LANG_GRAMMAR)",
                      shapes="quantifier chains of depth 1-3 (tree quantifiers with/without match expression, numeric "
                             "quantifiers) x %d propositional body patterns x rotating atoms; %d directly built ASTs "
                             "with n-ary (3-4) conjunctions/disjunctions" % (len(tvlib.BODY_PATTERNS), len(tvlib.ast_family(tier))),
                      trees="ALL (uninterpreted first-order structure; no tree axioms)", z3_timeout_ms=5000)
    run.engines = dict(z3="z3 4.11.2 (ISLa's own, in-process) decides; z3 5.1.0 re-checks every unsat from the SMT-LIB2 text",
                       replay="real isla.evaluator.evaluate on %d concrete trees for sat answers" % len(tvlib.witness_trees()))
    run.trusted = ["FOL encoder checks/fol.py (quantifier guards Lab/In/M, functional match-expression binders, interpreted SMT atoms)",
                   "z3 4.11.2 and z3 5.1.0"]
    run.assumptions = ["match-expression matching is a function of (node, match-expression skeleton); both sides of every obligation use the same symbols exactly when they carry the same match expression",
                       "predicates are uninterpreted relations (their meaning is C04/C20)"]
    run.outside = ["formula shapes outside the enumerated family", "formulas containing concrete tree arguments (solver-internal state)"]
    return run.finish(
        "For every program F of the family the real rewrite is executed (-F, convert_to_nnf, convert_to_nnf(negate), "
        "convert_to_dnf, ensure_unique_bound_variables, &, | incl. their simplification cases) and z3 decides "
        "enc(F) <=> enc(rewrite(F)) (resp. <=> not enc(F)) over ALL first-order structures, hence all trees; a "
        "rewrite that raises is a violation; a sat answer is a violation only with a concrete witness tree from "
        "the real evaluate().", samples=samples)


def replay(d):
    import tvlib
    rp = d["replay"]
    o = tvlib.c09_worker(rp["job"])
    bad = [r for r in o["results"] if r["name"] == rp["rewrite"] and r["verdict"] == "violated"]
    print("replay C09 %s on %s -> %s" % (rp["rewrite"], o["desc"][:200], "VIOLATION REPRODUCED: " + bad[0]["what"] if bad else "holds"))
    return 1 if bad else 0
