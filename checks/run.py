#!/venv/bin/python
"""Entry point: run.py <Cnn> [--tier quick|thorough]   |   run.py --replay <file>"""
import argparse
import importlib
import json
import os
import sys
import traceback
import warnings

warnings.filterwarnings("ignore")
HERE = os.path.dirname(os.path.abspath(__file__))
sys.path.insert(0, HERE)

import common  # noqa: E402


def main() -> int:
    ap = argparse.ArgumentParser()
    ap.add_argument("pid", nargs="?")
    ap.add_argument("--tier", default=os.environ.get("VERIF_TIER", "quick"), choices=["quick", "thorough"])
    ap.add_argument("--replay")
    ap.add_argument("--only", default="", help="comma-separated obligation groups (debugging)")
    a = ap.parse_args()
    if a.replay:
        d = json.load(open(a.replay))
        mod = importlib.import_module(d["property"].lower())
        return mod.replay(d)
    if not a.pid:
        ap.error("property id required")
    os.environ.setdefault("PYTHONHASHSEED", "0")
    try:
        mod = importlib.import_module(a.pid.lower())
        return mod.main(a.tier, set(filter(None, a.only.split(","))))
    except common.HarnessError as e:
        print("HARNESS-ERROR: property=%s %s" % (a.pid, e))
        return 2
    except Exception:
        traceback.print_exc()
        print("HARNESS-ERROR: property=%s crashed" % a.pid)
        return 2


if __name__ == "__main__":
    sys.exit(main())
