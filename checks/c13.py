"""C13 — tree insertion yields valid trees keeping all original nodes and the new tree (CrossHair, [decoder])."""
import os

import common
import xh

HARNESS = os.path.join(os.path.dirname(__file__), "harness", "h_c13.py")


def keyfn(r):
    err = r["replay"].get("err") or ""
    g = r["env"].get("VERIF_G13", "0")
    if " raised " in err:
        cls = "raises-" + err.split(" raised ")[1].split(":")[0]
    elif "not a derivation tree" in err:
        cls = "invalid-tree"
    elif "original node" in err:
        cls = "original-node-lost-or-duplicated"
    elif "inserted tree is not contained" in err:
        cls = "inserted-tree-missing"
    elif "has root" in err:
        cls = "root-changed"
    else:
        cls = "inconsistent-result"
    if r["name"] == "insert_ctx_closed" and cls == "inserted-tree-missing":
        return ("insert/context-addition/closed-inserted-tree-restructured", "host choices %s: %s" % (r["args"], err[:400]))
    return ("insert/g%s/%s" % (g, cls), "host choices %s: %s" % (r["args"], err[:400]))


def main(tier, only):
    run = common.Run("C13", tier, "other", [common.src_range("src/isla/existential_helpers.py", f) for f in
                     ["insert_tree", "compute_direct_embeddings", "compute_self_embeddings", "compute_context_additions", "wrap_in_tree_starting_in",
                      "path_to_tree", "connect_trees"]])
    L, to = (4, 300) if tier == "quick" else (6, 3000)
    cfgs = []
    for g in (0, 1, 2, 3, 4, 5, 6, 7):
        for pf in (("0,0,0", "0,0,1", "0,0,2", "0,1", "0,2") if g in (1, 3) else ("0,0", "0,1", "0,2")):
            cfgs.append(dict(tag="g%d.prefix%s" % (g, pf.replace(",", "")), env={"VERIF_G13": str(g), "VERIF_L": str(L), "VERIF_PREFIX": pf}, only=None, timeout=to))
        cfgs.append(dict(tag="g%d.short" % g, env={"VERIF_G13": str(g), "VERIF_L": "2" if g == 1 else "1"}, only=None, timeout=to))
    run.bounds = dict(hosts="all (open or closed) host trees decodable from <= %d choices, 8 grammars (assignment language, XML-like self-embedding, left-recursive expressions, settings with alternatives of different length, a nonterminal-like terminal on the recursion path, a recursion that cannot reach the inserted nonterminal, a chain of unit productions, a start symbol on a right-hand side); also with the first inner subtree of every other nonterminal as host" % L,
                      inserted="for every nonterminal: an open leaf, a smallest closed tree, a one-step expansion", methods="all 7 non-empty subsets of {direct, self embedding, context addition}")
    run.engines = dict(crosshair="crosshair-tool 0.0.110 on z3 4.11.2")
    run.trusted = ["tree validator and reference traversal in the harness"]
    run.assumptions = ["[decoder]", "'contains the inserted tree' = a node with the inserted root's id whose subtree extends the inserted tree (its open leaves may be filled, e.g. by the host's subtree under context addition)"]
    run.outside = ["larger hosts / inserted trees, other grammars, insert_trees (plural)"]
    res = xh.check_many("C13", HARNESS, cfgs, twin_timeout=180)
    xh.record(run, res, "", keyfn)
    return run.finish(
        "Real insert_tree for every bounded host, every portfolio tree and every method combination: each result is a derivation tree of the grammar with the host's "
        "root, contains every original node exactly once with its label, contains the inserted tree, and is internally consistent (paths, trie, ids).")


def replay(d):
    return xh.replay_file(d)
