"""C01 — every solver solution is grammar-valid and satisfies the constraint (bounded configuration space, CrossHair [decoder])."""
import os

import common
import xh

HARNESS = os.path.join(os.path.dirname(__file__), "harness", "h_c01.py")
NCONSTRAINTS = 25


def keyfn(r):
    err = r["replay"].get("err") or ""
    import re
    m = re.search(r"constraint #(\d+)", err)
    ci = m.group(1) if m else "?"
    if "violates the constraint" in err:
        cls = "solution-violates-constraint"
    elif "open tree" in err:
        cls = "solution-open"
    elif "not a derivation tree" in err or "not in the grammar" in err:
        cls = "solution-invalid"
    elif "although no timeout is configured" in err:
        return ("solve/unsat-support/timeout-leak", err[:500])
    elif " raised " in err:
        exc = err.split(" raised ")[1]
        cls = "raises-" + exc.split(":")[0] + ":" + "_".join(exc.split(":", 1)[1].split()[:6]) if ":" in exc else "raises-" + exc[:30]
    elif "a later call gave" in err:
        cls = "not-sticky"
    else:
        cls = "other"
    mo = re.search(r"optimized=(\d)", err)
    opt = ("opt" + mo.group(1) + "/") if mo else ""
    return ("solve/c%s/%s%s" % (ci, opt, cls), err[:500])


def configs(tier, mode, pid):
    wd = common.workdir(pid)
    log = os.path.join(wd, "ignored_%s.txt" % mode)
    if os.path.exists(log):
        os.unlink(log)
    if tier == "quick":
        sets, nsol, lim, to = "1=0,1,2;2=0,1,2;3=0,1;4=0;5=7;6=0;7=0,1", "3", "12", 400
    else:
        sets, nsol, lim, to = "1=0,1,2;2=0,2;3=0,1;4=0,1;5=1,2,4,7;6=0,1;7=0,1", "8", "25", 3500
    cfgs = []
    for ci, opt in ((c, o) for c in range(NCONSTRAINTS) for o in (0, 1)):
        if mode == "c01" and ci in (22,):
            continue      # exception-contract only (see harness)
        my_sets = sets
        if tier == "quick" and ci in (2, 4, 8):      # slow constraints: one instantiation-limit setting in the quick tier
            my_sets = sets.replace("1=0,1,2;2=0,1,2", "1=0;2=0")
        if tier == "quick" and mode == "c02":
            my_sets = my_sets.replace("1=0,1,2;2=0,1,2", "1=0,2;2=0,2")   # C01 already runs the middle value
        if (tier == "quick" and ci in (2, 8, 10)) or mode == "c02":
            # unsat support makes these constraints exceed the wall-clock guard; C02 has dedicated unsat-support obligations
            my_sets = my_sets.replace("7=0,1", "7=0")
        cfgs.append(dict(tag="c%d.opt%d" % (ci, opt), env={"VERIF_FIX": "0=%d,3=%d" % (ci, opt), "VERIF_SETS": my_sets, "VERIF_TIE": "1" if tier == "quick" else "0", "VERIF_NSOL": nsol, "VERIF_CALL_LIMIT": lim,
                                                "VERIF_MODE": mode, "VERIF_IGNORED_LOG": log}, only=["solve"], timeout=to, timing_dependent=True))
    return cfgs, log, sets, nsol


def main(tier, only):
    run = common.Run("C01", tier, "other", [common.src_range("src/isla/solver.py", "ISLaSolver." + f) for f in
                     ["solve", "process_new_states", "eliminate_all_semantic_formulas", "solve_quantifier_free_formula",
                      "solve_smt_formulas_with_language_constraints", "extract_model_value", "match_all_universal_formulas",
                      "eliminate_and_match_first_existential_formula_and_expand", "finish_unconstrained_trees", "expand"]])
    cfgs, log, sets, nsol = configs(tier, "c01", "C01")
    res = xh.check_many("C01", HARNESS, cfgs, twin_timeout=200)
    xh.record(run, res, "", keyfn)
    ignored = open(log).read().splitlines() if os.path.exists(log) else []
    run.extra["configurations_abandoned_as_too_slow"] = ignored[:40]
    run.bounds = dict(constraints="%d constraints over an assignment grammar with multi-digit numerals (match expressions, before, count, numeric quantifier, "
                                  "str.to.int / str.len / regex atoms, conjunction, unsatisfiable)" % NCONSTRAINTS,
                      settings="free/SMT instantiation limits, optimized Z3 queries, unique trees, insertion methods, seed: value sets %s" % sets,
                      solutions_per_configuration=nsol)
    run.engines = dict(crosshair="crosshair-tool 0.0.110 on z3 4.11.2 (enumerates the configuration vectors)")
    run.trusted = ["reference semantics checks/refsem.py, tree validator, Earley re-parse of the solution string"]
    run.assumptions = ["[decoder]: the solver loop cannot be encoded; the configuration space is enumerated exhaustively by the solver and the real solver runs natively per configuration",
                       "a configuration whose first solve() call exceeds the wall-clock guard is abandoned and listed in evidence",
                       "ISLa's two global z3.set_param calls (parallel.enable, smt.random_seed after an `unknown`) are stubbed out: they would reconfigure CrossHair's solver in the same process"]
    run.outside = ["other grammars/constraints, semantic predicates other than count, longer solution sequences, settings outside the value sets"]
    return run.finish(
        "For every configuration of the bounded space the real ISLaSolver is created and solve() called repeatedly: every returned tree must be closed, a derivation "
        "tree of the grammar rooted at <start>, re-parse, and satisfy the constraint under the reference semantics - for every prefix of the solution sequence.")


def replay(d):
    return xh.replay_file(d)
