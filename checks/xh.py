"""CrossHair driver.

A harness module is an ordinary Python file.  Every function `h_<name>` in it
carries PEP316 `pre:` lines and the single postcondition `post: _` and returns
True iff the property held on that execution.  The driver

  * appends, for every `h_<name>`, a reachability twin `t_<name>` (same
    parameters, same preconditions, same body, `post: False`): the twin MUST come
    back with a counterexample, otherwise the harness never reaches its
    assertion (vacuous) -> harness error;
  * runs `crosshair check --report_all` on each function in its own OS process
    (timeout = sequential CPU seconds per condition), all cores;
  * parses the verdict and, for a counterexample, the concrete arguments, and
    replays them by calling the plain function under /venv/bin/python without
    CrossHair.  Only a reproducing counterexample is returned as such.
"""
from __future__ import annotations

import ast
import json
import os
import re
import subprocess
import sys
import time
from concurrent.futures import ThreadPoolExecutor
from typing import Any, Dict, List, Optional, Tuple

from common import NCPU, OVERLAY_PY, BASE_PY, ensure_overlay, workdir, VERIF

CONFIRMED, COUNTEREXAMPLE, NOT_CONFIRMED, NO_PRE, ERROR = (
    "confirmed", "counterexample", "not-confirmed", "unable-to-meet-precondition", "error")


def _twin_source(src: str) -> Tuple[str, List[Tuple[str, int, int]]]:
    """Return source with twins appended, and [(name, lineno_h, lineno_t)]."""
    tree = ast.parse(src)
    out_lines = src.rstrip("\n").split("\n")
    infos = []
    for node in tree.body:
        if isinstance(node, ast.FunctionDef) and node.name.startswith("h_"):
            doc = ast.get_docstring(node, clean=False) or ""
            if "post:" not in doc:
                continue
            twin = ast.FunctionDef(
                name="t_" + node.name[2:], args=node.args, body=list(node.body),
                decorator_list=[], returns=node.returns, type_comment=None, type_params=[])
            pre = [l.strip() for l in doc.split("\n") if l.strip().startswith("pre:")]
            twin_doc = "\n    " + "\n    ".join(pre + ["post: False"]) + "\n    "
            twin.body = [ast.Expr(ast.Constant(twin_doc))] + twin.body[1:]
            ast.fix_missing_locations(twin)
            text = ast.unparse(twin)
            out_lines.append("")
            out_lines.append("")
            lineno_t = len(out_lines) + 1
            out_lines.extend(text.split("\n"))
            infos.append((node.name[2:], node.lineno, lineno_t))
    return "\n".join(out_lines) + "\n", infos


_MSG = re.compile(r"^(?P<file>[^:]+):(?P<line>\d+): (?P<kind>error|info): (?P<msg>.*)$")
_CALL = re.compile(r"when calling (?P<fn>\w+)\((?P<args>.*?)\)(?: \(which (?:returns|raises).*\))?$", re.S)


def _run_one(pyfile: str, fn: str, lineno: int, timeout: float, env: Dict[str, str],
             per_path: Optional[float]) -> Dict[str, Any]:
    cmd = [OVERLAY_PY, "-W", "ignore", "-m", "crosshair", "check", "--report_all",
           "--per_condition_timeout", str(timeout)]
    if per_path is not None:
        cmd += ["--per_path_timeout", str(per_path)]
    cmd += ["%s:%d" % (pyfile, lineno + 1)]
    t0 = time.time()
    try:
        p = subprocess.run(cmd, capture_output=True, text=True, env=env,
                           timeout=timeout * 2.5 + 120, cwd=os.path.dirname(pyfile))
        out, err, rc = p.stdout, p.stderr, p.returncode
    except subprocess.TimeoutExpired as e:
        out = (e.stdout or b"").decode() if isinstance(e.stdout, bytes) else (e.stdout or "")
        err, rc = "hard timeout", -9
        if "Confirmed" not in out and "error:" not in out:
            return dict(fn=fn, verdict=NOT_CONFIRMED, msg="hard timeout", args=None,
                        wall_s=round(time.time() - t0, 2), rc=rc, raw=out[-1500:])
    dt = time.time() - t0
    verdict, msg, args = ERROR, (err or "")[-600:], None
    for line in out.splitlines():
        m = _MSG.match(line)
        if not m:
            continue
        text = m.group("msg")
        if m.group("kind") == "info":
            if "Confirmed over all paths" in text:
                verdict, msg = CONFIRMED, text
            elif "Not confirmed" in text:
                verdict, msg = NOT_CONFIRMED, text
            elif "Unable to meet precondition" in text:
                verdict, msg = NO_PRE, text
        else:
            verdict, msg = COUNTEREXAMPLE, text
            c = _CALL.search(text)
            if c:
                args = c.group("args")
            break
    if verdict == ERROR and rc == 0 and not out.strip():
        verdict, msg = NOT_CONFIRMED, "no output"
    return dict(fn=fn, verdict=verdict, msg=msg, args=args, wall_s=round(dt, 2), rc=rc,
                raw=out[-1500:])


_REPLAY = r'''
import sys, json, runpy, importlib.util
spec = importlib.util.spec_from_file_location("harness_replay", sys.argv[1])
m = importlib.util.module_from_spec(spec); sys.modules["harness_replay"] = m
spec.loader.exec_module(m)
fn = getattr(m, sys.argv[2])
ns = dict(vars(m))
try:
    args = eval("(lambda *a, **k: (a, k))(" + sys.argv[3] + ")", ns)
except Exception as e:
    print(json.dumps(dict(status="unparseable", err=repr(e)))); sys.exit(0)
try:
    r = fn(*args[0], **args[1])
    print(json.dumps(dict(status="returned", value=bool(r), repr=repr(r))))
except BaseException as e:
    print(json.dumps(dict(status="raised", err=type(e).__name__ + ": " + str(e)[:300])))
'''


def replay(pyfile: str, fn: str, args: str, env: Dict[str, str]) -> Dict[str, Any]:
    """Call harness function with concrete args in plain python (no CrossHair)."""
    p = subprocess.run([BASE_PY, "-W", "ignore", "-c", _REPLAY, pyfile, fn, args],
                       capture_output=True, text=True, env=env, timeout=600,
                       cwd=os.path.dirname(pyfile))
    last = [l for l in p.stdout.splitlines() if l.startswith("{")]
    if not last:
        return dict(status="crashed", err=(p.stderr or "")[-500:])
    return json.loads(last[-1])


def check_module(pid: str, harness_path: str, timeout: float, env_extra: Optional[Dict[str, str]] = None,
                 only: Optional[List[str]] = None, twin_timeout: float = 60.0,
                 per_path: Optional[float] = None, tag: str = "") -> List[Dict[str, Any]]:
    return check_many(pid, harness_path, [dict(tag=tag, env=env_extra or {}, only=only, timeout=timeout)],
                      twin_timeout=twin_timeout, per_path=per_path)


def check_many(pid: str, harness_path: str, configs: List[Dict[str, Any]], twin_timeout: float = 60.0,
               per_path: Optional[float] = None) -> List[Dict[str, Any]]:
    """Run h_* (and twins) of a harness module under several environments (bounds, partitions)
    in ONE process pool.  configs: dicts with tag, env, only (list of names or None), timeout.
    Returns result dicts: tag, name, verdict, reproduced (for counterexamples), args, replay,
    twin_ok, wall_s."""
    ensure_overlay()
    src = open(harness_path).read()
    gen_src, infos = _twin_source(src)
    wd = workdir(pid)
    base = os.path.splitext(os.path.basename(harness_path))[0]
    gen = os.path.join(wd, "%s_gen.py" % base)
    with open(gen, "w") as f:
        f.write(gen_src)
    jobs = []
    envs = {}
    for cfg in configs:
        env = dict(os.environ)
        env["PYTHONPATH"] = os.pathsep.join([os.path.join(VERIF, "checks"), os.path.dirname(harness_path),
                                             env.get("PYTHONPATH", "")])
        env["PYTHONHASHSEED"] = "0"
        env.update(cfg.get("env") or {})
        envs[cfg["tag"]] = env
        for name, ln_h, ln_t in infos:
            if cfg.get("only") and name not in cfg["only"]:
                continue
            jobs.append((cfg["tag"], "h_" + name, ln_h, cfg["timeout"]))
            jobs.append((cfg["tag"], "t_" + name, ln_t, twin_timeout))
    results: Dict[Tuple[str, str], Dict[str, Any]] = {}
    # longest first
    jobs.sort(key=lambda j: -j[3])
    with ThreadPoolExecutor(max_workers=NCPU) as ex:
        futs = {ex.submit(_run_one, gen, fn, ln, to, envs[tag], per_path): (tag, fn) for tag, fn, ln, to in jobs}
        for fut, k in futs.items():
            results[k] = fut.result()
    out = []
    for cfg in configs:
        tag = cfg["tag"]
        for name, _, _ in infos:
            if cfg.get("only") and name not in cfg["only"]:
                continue
            h, t = results[(tag, "h_" + name)], results[(tag, "t_" + name)]
            r = dict(tag=tag, name=name, verdict=h["verdict"], msg=h["msg"], args=h["args"], wall_s=h["wall_s"],
                     twin_verdict=t["verdict"], twin_ok=(t["verdict"] == COUNTEREXAMPLE),
                     twin_wall_s=t["wall_s"], harness=gen, env=cfg.get("env") or {}, allow_vacuous=bool(cfg.get("allow_vacuous")),
                     timing_dependent=bool(cfg.get("timing_dependent")))
            if h["verdict"] == COUNTEREXAMPLE:
                if h["args"] is None:
                    r["reproduced"] = False
                    r["replay"] = dict(status="unparseable", err=h["msg"])
                else:
                    for _attempt in range(3 if cfg.get("timing_dependent") else 1):
                        rp = replay(gen, "h_" + name, h["args"], envs[tag])
                        r["replay"] = rp
                        r["reproduced"] = (rp.get("status") == "raised") or (
                            rp.get("status") == "returned" and rp.get("value") is False)
                        if r["reproduced"]:
                            break
            if h["verdict"] == ERROR:
                r["raw"] = h["raw"]
            out.append(r)
    return out


def record(run, results: List[Dict[str, Any]], prefix: str, keyfn, bounds: str = "") -> None:
    """Map CrossHair results to evidence.  keyfn(result) -> (key, what) classifies a replayed
    counterexample (key is matched against KNOWN_FINDINGS.txt)."""
    for r in results:
        name = prefix + (r.get("tag") or "") + ("/" if r.get("tag") else "") + r["name"]
        eng = "crosshair"
        detail = dict(bounds=bounds, twin=r["twin_verdict"], wall_s=r["wall_s"])
        if r["twin_verdict"] in (CONFIRMED, NO_PRE) and r["verdict"] != COUNTEREXAMPLE:
            # (a counterexample of the harness itself proves that the precondition is reachable: the twin only timed out)
            if r.get("allow_vacuous") and r["twin_verdict"] == NO_PRE:
                if r["verdict"] in (CONFIRMED, NO_PRE):
                    # a partition of a larger input space that happens to contain no admissible input
                    run.ok(name, eng, solver_s=r["wall_s"], verdict_text="empty partition (no input meets the precondition)", **detail)
                else:
                    run.inconclusive(name, eng, "%s; reachability twin: %s" % (r["verdict"], r["twin_verdict"]), solver_s=r["wall_s"], **detail)
                continue
            if r.get("timing_dependent") and r["twin_verdict"] == NO_PRE:
                # harnesses around solve() abandon a configuration whose first call exceeds a wall-clock guard; on a loaded
                # machine that can be every configuration of a partition
                run.inconclusive(name, eng, "no configuration of this partition finished within the wall-clock guard (twin: %s)" % r["twin_verdict"],
                                 solver_s=r["wall_s"], **detail)
                continue
            run.harness_error("vacuous harness %s: reachability twin verdict %s" % (name, r["twin_verdict"]))
            continue
        if r["verdict"] == ERROR:
            run.harness_error("crosshair failed on %s: %s" % (name, (r.get("msg") or "")[-300:] + (r.get("raw") or "")[-300:]))
            continue
        if r["verdict"] == COUNTEREXAMPLE:
            if not r.get("reproduced") and r.get("timing_dependent"):
                # the code under test depends on the wall clock (Z3 query timeouts, the guard around solve()): a failure that
                # three replays in a fresh interpreter do not show again is reported as inconclusive, with its input
                run.inconclusive(name, eng, "counterexample %s seen once under CrossHair but not reproduced by three replays (timing-dependent code): %s"
                                 % (r["args"], r["replay"]), solver_s=r["wall_s"], **detail)
                continue
            if not r.get("reproduced"):
                run.harness_error("counterexample of %s did not reproduce outside CrossHair: args=%s replay=%s"
                                  % (name, r["args"], r["replay"]))
                continue
            key, what = keyfn(r)
            run.violation(name, key, eng, what, dict(kind="crosshair", harness=r["harness"],
                          fn="h_" + r["name"], args=r["args"], env=r["env"], outcome=r["replay"]),
                          solver_s=r["wall_s"])
            continue
        if not r["twin_ok"]:
            run.inconclusive(name, eng, "reachability twin inconclusive (%s)" % r["twin_verdict"],
                             solver_s=r["wall_s"], **detail)
        elif r["verdict"] == CONFIRMED:
            run.ok(name, eng, solver_s=r["wall_s"], verdict_text="Confirmed over all paths", **detail)
        else:
            run.inconclusive(name, eng, r["verdict"] + ": " + (r["msg"] or ""), solver_s=r["wall_s"], **detail)


def replay_file(d: Dict[str, Any]) -> int:
    """Re-run a stored CrossHair counterexample against the current tree (run.py --replay)."""
    rp = d["replay"]
    env = dict(os.environ)
    env["PYTHONPATH"] = os.pathsep.join([os.path.join(VERIF, "checks"), os.path.join(VERIF, "checks", "harness")])
    env.update(rp.get("env") or {})
    out = replay(rp["harness"], rp["fn"], rp["args"], env)
    bad = out.get("status") == "raised" or (out.get("status") == "returned" and out.get("value") is False)
    print("replay %s(%s): %s -> %s" % (rp["fn"], rp["args"], out, "VIOLATION REPRODUCED" if bad else "holds"))
    return 1 if bad else 0
