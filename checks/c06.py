"""C06 — three-valued verdicts on partial trees never contradict a completion."""
import os
import sys

import common
import xh
from c03 import formula_class

HARNESS = os.path.join(os.path.dirname(__file__), "harness", "h_c03.py")
HARNESS_TV = os.path.join(os.path.dirname(__file__), "harness", "h_c06.py")


def keyfn(r):
    err = r["replay"].get("err") or ""
    if r["name"] != "open":
        return ("kleene/" + r["name"], "%s(%s): %s" % (r["name"], r["args"], r["replay"]))
    kind = "raises" if "evaluate raised" in err else "definite-verdict-contradicted"
    return ("open/%s/%s" % (formula_class(err), kind), err[:500])


def main(tier, only):
    run = common.Run("C06", tier, "other", [common.src_range("src/isla/evaluator.py", f) for f in
                     ["evaluate", "evaluate_legacy", "evaluate_quantified_formula", "evaluate_smt_formula", "quantified_formula_might_match",
                      "can_extend_leaf_to_make_quantifier_match_parent", "evaluate_semantic_predicate_formula", "eliminate_quantifiers"]] +
                     [common.src_range("src/isla/three_valued_truth.py", "ThreeValuedTruth")])
    if tier == "quick":
        stmts, nd, nc, parts, fsplit, to = 2, 3, 2, 8, 2, 280
    else:
        stmts, nd, nc, parts, fsplit, to = 2, 4, 3, 8, 4, 3000
    cfgs = []
    # formula classes that have a recorded known finding get their own obligation
    known_classes = sorted({k.split("/")[1] for k in run.known if k.startswith("open/")})
    base = {"VERIF_STMTS": str(stmts), "VERIF_ND": str(nd), "VERIF_NC": str(nc)}
    for i in range(parts):
        for j in range(fsplit):
            cfgs.append(dict(tag="part%d.f%d" % (i, j),
                             env=dict(base, VERIF_PART="%d/%d" % (i, parts), VERIF_FORMULAS="%d/%d" % (j, fsplit),
                                      VERIF_SKIP_CLASSES=",".join(known_classes)), only=["open"], timeout=to))
    for c in known_classes:
        cfgs.append(dict(tag="class-" + c, env=dict(base, VERIF_ONLY_CLASS=c), only=["open"], timeout=to))
    run.extra["formula_classes_with_known_findings"] = known_classes
    sys.path.insert(0, os.path.dirname(HARNESS))
    import h_c03
    run.bounds = dict(open_trees="all open trees of the assignment grammar with <= %d statements whose code has <= %d base-8 digits" % (stmts, nd),
                      completions="all completions whose code has <= %d base-8 digits (same node identities)" % nc, formulas=len(h_c03.FORMULAS),
                      kleene="vectors over {TRUE, FALSE, UNKNOWN} of length <= 4")
    run.engines = dict(crosshair="crosshair-tool 0.0.110 on z3 4.11.2")
    run.trusted = ["reference semantics checks/refsem.py on the closed completion"]
    run.assumptions = ["[decoder] for the open-tree obligation; the Kleene-monotonicity obligations are symbolic over the truth-value vectors"]
    run.outside = ["other grammars, larger trees, formulas outside the family"]
    res = xh.check_many("C06", HARNESS, cfgs, twin_timeout=120)
    xh.record(run, res, "", keyfn)
    res2 = xh.check_many("C06", HARNESS_TV, [dict(tag="", env={}, only=None, timeout=120 if tier == "quick" else 900)])
    xh.record(run, res2, "kleene/", keyfn)
    return run.finish(
        "(1) Every open tree of the bounded family and every completion of it (both enumerated exhaustively by the solver from symbolic codes): "
        "if the real evaluate() returns TRUE or FALSE on the open tree, the reference semantics must give the same verdict on the completion, "
        "for each of the %d formulas. (2) ThreeValuedTruth.all/any/not_/and/or are monotone w.r.t. refinement of UNKNOWN (symbolic vectors)."
        % len(h_c03.FORMULAS))


def replay(d):
    return xh.replay_file(d)
