"""C04 — structural predicates have their documented meaning (CrossHair on the real functions)."""
import os

import common
import xh

HARNESS = os.path.join(os.path.dirname(__file__), "harness", "h_c04.py")
PURE = ["before", "after", "inside", "direct_child", "same_different", "trichotomy"]
TREE_FNS = ["nth", "nth_str", "consecutive_top", "consecutive_nested", "level"]
N_SMALL, N_LARGE = 7, 4


def keyfn(r):
    n = r["name"]
    return (n, "%s(%s) deviates from the documented meaning: %s" % (n, r["args"], r["replay"]))


def main(tier, only):
    run = common.Run("C04", tier, "other", [
        common.src_range("src/isla/isla_predicates.py", f) for f in
        ["is_before", "is_after", "in_tree", "is_direct_child", "is_same_position",
         "is_different_position", "is_nth", "consecutive", "level_check"]])
    N = 3 if tier == "quick" else 5
    to = 100 if tier == "quick" else 900
    cfgs = [dict(tag="paths", env={"VERIF_N": str(N)}, only=PURE, timeout=to)]
    import sys
    sys.path.insert(0, os.path.dirname(HARNESS))
    import h_c04
    # consecutive_top needs two leaves without a common ancestor below the root
    fns = {k: [f for f in TREE_FNS if f != "consecutive_top" or len(t.children or ()) >= 2]
           for k, t in enumerate(h_c04.TREES)}
    for k in range(N_SMALL):
        cfgs.append(dict(tag="tree%d" % k, env={"VERIF_K": str(k)}, only=fns[k], timeout=to))
    if tier == "thorough":
        parts = 6
        for k in range(N_SMALL, N_SMALL + N_LARGE):
            for i in range(parts):
                cfgs.append(dict(tag="tree%d.part%d" % (k, i), env={"VERIF_K": str(k), "VERIF_PART": "%d/%d" % (i, parts)},
                                 only=fns[k], timeout=to, allow_vacuous=True))
    run.bounds = dict(path_length_max=N, child_indices="unbounded non-negative ints",
                      tree_portfolio="7 hand-built trees (<= 11 nodes)" + (" + 4 parsed trees (20-45 nodes)" if tier == "thorough" else ""),
                      nth_n="any int; numeral strings 0..12", level_ops="EQ GE LE GT LT",
                      per_condition_timeout_s=to)
    run.engines = dict(crosshair="crosshair-tool 0.0.110 on z3 4.11.2")
    run.trusted = ["reference definitions ref_* in checks/harness/h_c04.py written from islaspec.rst "
                   "(table of structural predicates, isBefore) and the comment block of level_check",
                   "CrossHair models of int/list/tuple"]
    run.assumptions = ["paths are tuples of non-negative ints",
                       "label-dependent predicates: paths valid in the portfolio tree (node pairs enumerated by "
                       "CrossHair forking on symbolic child indices, then realised); nth: node 1 is a nonterminal "
                       "node (asserted by the implementation); consecutive: both arguments are leaves"]
    run.outside = ["paths longer than %d for the pure path predicates" % N,
                   "trees outside the portfolio for nth/consecutive/level"]
    res = xh.check_many("C04", HARNESS, cfgs)
    xh.record(run, res, "", keyfn)
    return run.finish(
        "Real predicate functions executed symbolically by CrossHair: two symbolic paths (length <= %d, unbounded "
        "child indices) against reference definitions from the specification, plus the trichotomy law; "
        "label-dependent predicates (nth, consecutive, level) on a portfolio of concrete trees with symbolic valid "
        "paths, symbolic n and level operator. Verdict per obligation is CrossHair's 'Confirmed over all paths' "
        "(exhaustive within the bound) or a counterexample replayed outside CrossHair." % N)


def replay(d):
    return xh.replay_file(d)
