"""C07 — unparsed constraints parse back to the same constraint (translation validation + concrete side conditions)."""
from __future__ import annotations

import common
from c09 import record_tv


def jobs_for(tier):
    import tvlib
    jobs = [dict(grammar="lang", text=t) for t in tvlib.core_texts(tier, common.SEED)]
    jobs += [dict(grammar=g, text=t) for g, t in tvlib.sugar_texts(tier)]
    jobs += [dict(grammar=g, text=t) for g, t in tvlib.smt_operator_texts()]
    return jobs


def main(tier, only):
    import tvlib
    run = common.Run("C07", tier, "translation_validation",
                     [common.src_range("src/isla/language.py", f) for f in
                      ["ISLaUnparser", "unparse_isla", "parse_isla", "ISLaEmitter", "BindExpression.__str__", "MExprEmitter"]] +
                     [common.src_range("src/isla/z3_helpers.py", "smt_expr_to_str")])
    jobs = jobs_for(tier)
    outs = tvlib.run_pool(tvlib.c07_worker, jobs, common.NCPU)
    gs, gt, samples = record_tv(run, outs)
    rej = run.extra.get("rejected_by_parse_isla", [])
    run.extra["rejected_note"] = ("%d of %d family texts are not accepted by parse_isla; the property only speaks about accepted "
                                  "constraints, so they carry no obligation" % (len(rej), len(jobs)))
    if len(rej) > 0.2 * len(jobs):
        run.harness_error("%d of %d programs rejected by parse_isla" % (len(rej), len(jobs)))
    if gt == 0 or gs < 0.6 * gt:
        run.harness_error("vacuity guard: seeded wrong rewrite refuted for only %d of %d programs" % (gs, gt))
    run.extra["vacuity_guard"] = "re-parsed formula vs. a seeded wrong variant (body negated) refuted (sat) for %d of %d programs" % (gs, gt)
    run.bounds = dict(programs=len(jobs), grammars="assignment language, XML-like, escape-character grammar",
                      trees="ALL (uninterpreted first-order structure)", literals="enumerated (12 special-character literals): sampling, see outside_the_claim")
    run.engines = dict(z3="z3 4.11.2 in-process + z3 5.1.0 re-check", replay="real evaluate on concrete trees")
    run.trusted = ["FOL encoder checks/fol.py", "z3"]
    run.assumptions = ["see C09"]
    run.outside = ["string-literal escaping goes through Z3's C printer, ANTLR and Z3's C parser: literal contents are enumerated, not symbolic",
                   "constraints outside the enumerated family"]
    return run.finish(
        "For every constraint text of the family: F = parse_isla(text), F2 = parse_isla(unparse_isla(F)) by the real code; z3 "
        "proves enc(F) <=> enc(F2) for all trees; plus the concrete side conditions of the property (re-parse does not raise, "
        "F2 == F, unparse(F2) == unparse(F)).", samples=samples)


def replay(d):
    import tvlib
    rp = d["replay"]
    o = tvlib.c07_worker(rp["job"])
    bad = [r for r in o["results"] if r["name"] == rp["rewrite"] and r["verdict"] == "violated"]
    print("replay C07 %s on %s -> %s" % (rp["rewrite"], o["desc"][:200], "VIOLATION REPRODUCED: " + bad[0]["what"] if bad else "holds"))
    return 1 if bad else 0
