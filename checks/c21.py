"""C21 — inputs generated for the shipped formalizations pass independent validity checks (CrossHair, [decoder])."""
import os
import re

import common
import xh

HARNESS = os.path.join(os.path.dirname(__file__), "harness", "h_c21.py")


def classify(name, err):
    """finding class = formalization / what the independent validator objects to (numbers and names removed)"""
    m = re.search(r"independent (\w+) check rejects: (.*)", err, re.S)
    if not m:
        if " raised " in err:
            return "raises-" + err.split(" raised ")[1].split(" ")[0].rstrip(":")
        return "other"
    form, why = m.group(1), m.group(2)
    why = why.split(": line ")[0]
    why = re.sub(r"entry \d+: ", "", why)
    why = re.sub(r"'[^']*'|\"[^\"]*\"|\[[^\]]*\]|\d+", "_", why)
    why = re.sub(r"[^A-Za-z_()]+", "-", why).strip("-")[:70]
    return "%s/%s" % (form, why)


# input classes with a recorded finding: skipped in the general conditions, checked in a condition of their own
KNOWN_FEATURES = {"xml": ["xml-binds-reserved-prefix-xml"]}
# reST body text that docutils reads as markup: only reachable with the docutils-active macro set (VERIF_RISKY)
RISKY_FEATURES = {"rest": ["rest-literal-block-marker", "rest-text-line-above-underline-like-line", "rest-paragraph-starts-like-list-or-markup",
                           "rest-inline-markup-start-character"]}
CLASS_SLICE = {"xml-binds-reserved-prefix-xml": ("3", "-1"), "rest-literal-block-marker": ("3", "-1"), "rest-inline-markup-start-character": ("3", "-1"),
               "rest-text-line-above-underline-like-line": ("4", "7"), "rest-paragraph-starts-like-list-or-markup": ("4", "8")}
ALL_FEATURES = sum(KNOWN_FEATURES.values(), []) + sum(RISKY_FEATURES.values(), [])


def keyfn(r):
    err = r["replay"].get("err") or ""
    if r["env"].get("VERIF_ONLY_FEATURE"):
        return ("adequacy/" + r["env"]["VERIF_ONLY_FEATURE"], "%s(%s): %s" % (r["name"], r["args"], err[:500]))
    kind = "solve" if r["name"] == "solve" else "adequacy"
    return ("%s/%s" % (kind, classify(r["name"], err)), "%s(%s): %s" % (r["name"], r["args"], err[:500]))


def main(tier, only):
    run = common.Run("C21", tier, "other", [
        "src/isla_formalizations/csv.py (CSV_GRAMMAR, CSV_COLNO_PROPERTY)", "src/isla_formalizations/xml_lang.py (grammar, four constraints)",
        "src/isla_formalizations/rest.py (REST_GRAMMAR, four constraints)", "src/isla_formalizations/simple_tar.py (grammar, TAR_CONSTRAINTS)",
        common.src_range("src/isla_formalizations/simple_tar.py", "tar_checksum"), common.src_range("src/isla_formalizations/tar.py", "ljust_crop_tar"), common.src_range("src/isla/evaluator.py", "evaluate"),
        common.src_range("src/isla/solver.py", "ISLaSolver.solve")])
    quick = tier == "quick"
    D, TOP = (3, 6) if quick else (4, 1)      # thorough: tree codes below 16^3 = 4096 (larger spaces did not finish within an hour on a shared machine)
    P = 4 if quick else 16
    to = 600 if quick else 5400
    cfgs = []
    for which in ("csv", "xml", "rest"):
        for rtl in (0, 1):
            for k in range(P):
                cfgs.append(dict(tag="%s.%s.p%d" % (which, "rtl" if rtl else "ltr", k), only=["adq_" + which], timeout=to,
                                 env={"VERIF_D": str(D), "VERIF_TOP": str(TOP), "VERIF_RTL": str(rtl), "VERIF_PART": "%d/%d" % (k, P),
                                      "VERIF_SKIP_FEATURES": ",".join(KNOWN_FEATURES.get(which, []))}))
        for feat in KNOWN_FEATURES.get(which, []) + RISKY_FEATURES.get(which, []):
            # the slice of the code space searched for the recorded class (a witness is known to lie in it)
            d, topeq = CLASS_SLICE.get(feat, ("4", "-1"))
            cfgs.append(dict(tag="%s.class-%s" % (which, feat), only=["adq_" + which], timeout=to,
                             env={"VERIF_D": d, "VERIF_TOPEQ": topeq, "VERIF_RTL": "0", "VERIF_ONLY_FEATURE": feat, "VERIF_RISKY": "1"}))
    PX = 8 if quick else 16
    for k in range(PX):
        cfgs.append(dict(tag="xml-ns.p%d" % k, only=["adq_xml_ns"], timeout=to, allow_vacuous=True,
                         env={"VERIF_PART": "%d/%d" % (k, PX), "VERIF_XML_SLOTS": "1,1", "VERIF_XML_CLOSE": "0,2" if quick else "0,1,2,3", "VERIF_XML_INNER_ATTRS": "0,1,2,4,7,8" if quick else "",
                              "VERIF_SKIP_FEATURES": ",".join(KNOWN_FEATURES.get("xml", []))}))
    PT = 8 if quick else 16
    for k in range(PT):
        cfgs.append(dict(tag="tar.p%d" % k, only=["adq_tar"], timeout=to, env={"VERIF_PART": "%d/%d" % (k, PT), "VERIF_TAR2": "0" if quick else "1", "VERIF_TAR_LINKS": "2" if quick else "4"},
                         allow_vacuous=True))
    nseeds, nsol = (2, 6) if quick else (6, 20)
    for fi, name in enumerate(("csv", "xml", "rest", "tar")):
        for seed in range(nseeds):
            cfgs.append(dict(tag="solve.%s.seed%d" % (name, seed), only=["solve"], timeout=to, timing_dependent=True,
                             env={"VERIF_WHICH": str(fi), "VERIF_SEED": str(seed), "VERIF_NSOL": str(nsol if name != "tar" else max(3, nsol // 2)),
                                  "VERIF_INST": "1" if quick else "2", "VERIF_SKIP_FEATURES": ",".join(ALL_FEATURES)}))
    run.bounds = dict(
        adequacy="csv/xml/rest: every derivation tree of the shipped grammar whose pre-order choice sequence, read as a mixed-radix numeral (left-to-right and "
                 "right-to-left child order), is below %d, with identifiers / fields / texts chosen from small macro sets; simple tar: every header built from "
                 "3 names x padding 99/100/101 x type flag x %d link names x padding x 4 checksum variants, 1 entry%s" % (TOP * 16 ** (D - 1), 2 if quick else 4, "" if quick else " or 2 entries (one of them the valid baseline)"),
        xml_namespaces="element-level scenarios: outer element (4 prefixes x %s attributes from a menu of 8 incl. xmlns:a / xmlns:b / prefixed / xml: / xmlns:xmlns / default namespace) x 5 body kinds "
                       "(text, self-closing, child, child with text, two children) x inner element (4 prefixes x 1 attribute%s) x %d close-tag variants" % ("1", " from 6 of the menu" if quick else "", 2 if quick else 4),
        solve="%d seeds x 5 cost settings (default, the repository's two tuned vectors, two extreme vectors) x instantiation limits %s, first %d solutions (tar: %d)" % (
            nseeds, "1" if quick else "1..2", nsol, max(3, nsol // 2)))
    run.engines = dict(crosshair="crosshair-tool 0.0.110 on z3 4.11.2")
    run.trusted = ["independent validators in the harness: Python csv module, expat (xml.etree), docutils 0.22 + heading / numbering read-off, hand-written simple-tar field and checksum check"]
    run.assumptions = ["[decoder]: the tree code / configuration vector is symbolic and enumerated by the solver; ISLa's evaluator and solver run natively on the decoded value",
                       "adequacy + C01 (every solution satisfies the constraint) + C03 (evaluator = documented semantics) together give C21 for all seeds and cost settings; "
                       "the solve obligations check it end to end for the enumerated configurations",
                       "simple tar: 'valid' = checksum and field encodings as in the property statement (link targets are not part of the independent check)"]
    run.outside = ["larger trees, other characters than the macro sets, the full TAR and Scriptsize-C formalizations, csvlint", "later solutions, other seeds / weight vectors"]
    res = xh.check_many("C21", HARNESS, cfgs, twin_timeout=240)
    xh.record(run, res, "", keyfn)
    return run.finish(
        "For every bounded derivation tree of the shipped CSV / XML / reST / simple-TAR grammars on which the shipped constraint evaluates to TRUE, an independent validator "
        "(csv module, expat, docutils, hand-written tar check) accepts the string; and for every enumerated solver configuration every produced solution is accepted.",
        samples=[dict(name=o["name"], verdict=o["verdict"], solver_s=o.get("solver_s")) for o in run.obligations])


def replay(d):
    return xh.replay_file(d)
