#!/venv/bin/python
"""MANIFEST.setup_cmd: build the CrossHair overlay venv offline and verify the solver binaries."""
import os, shutil, subprocess, sys
sys.path.insert(0, os.path.dirname(os.path.abspath(__file__)))
import common
py = common.ensure_overlay()
print("overlay:", py)
for b in ["z3-new", "cvc5", "z3"]:
    p = shutil.which(b)
    print(b, "->", p)
    if p is None:
        print("missing solver binary", b); sys.exit(2)
print("setup ok")
