"""C03 — evaluate() agrees with the ISLa language specification on closed trees."""
import os
import sys

import common
import xh

HARNESS = os.path.join(os.path.dirname(__file__), "harness", "h_c03.py")


def formula_class(err: str) -> str:
    import re
    m = re.search(r"formula #(\d+) '(.*?)'", err or "")
    text = m.group(2) if m else ""
    return text_class(text)


def text_class(text: str) -> str:
    import re
    if " int " in text:
        return "numeric-quantifier"
    if re.search(r':= <(digit|var)>"', text):
        return "mexpr-nested-dummy"      # unbound nonterminal below the match expression's direct children
    if '="' in text:
        return "match-expression"
    return "plain"


def keyfn(r):
    err = r["replay"].get("err") or ""
    kind = "raises" if "evaluate raised" in err else "wrong-verdict"
    return ("closed/%s/%s" % (formula_class(err), kind), err[:500])


def main(tier, only):
    run = common.Run("C03", tier, "other", [common.src_range("src/isla/evaluator.py", f) for f in
                     ["evaluate", "evaluate_legacy", "evaluate_quantified_formula", "evaluate_smt_formula",
                      "evaluate_structural_predicate_formula", "evaluate_semantic_predicate_formula", "evaluate_negated_formula_formula",
                      "evaluate_conjunctive_formula_formula", "evaluate_disjunctive_formula", "evaluate_exists_int_formula",
                      "eliminate_quantifiers", "eliminate_quantifiers_in_quantified_formula",
                      "eliminate_quantifiers_in_numeric_quantified_formula", "matches_for_quantified_formula"]] +
                     [common.src_range("src/isla/language.py", "match")])
    if tier == "quick":
        stmts, nd, parts, fsplit, to = 2, 4, 8, 2, 240
    else:
        stmts, nd, parts, fsplit, to = 3, 5, 8, 4, 3000
    cfgs = []
    for i in range(parts):
        for j in range(fsplit):
            cfgs.append(dict(tag="part%d.f%d" % (i, j),
                             env={"VERIF_STMTS": str(stmts), "VERIF_ND": str(nd), "VERIF_PART": "%d/%d" % (i, parts),
                                  "VERIF_FORMULAS": "%d/%d" % (j, fsplit)}, only=["closed"], timeout=to))
    sys.path.insert(0, os.path.dirname(HARNESS))
    import h_c03
    ntrees = {2: 240, 3: 3615}[stmts]
    run.bounds = dict(trees="ALL %d closed derivation trees of the assignment grammar (3 variables, 2 digits) with <= %d statements" % (ntrees, stmts),
                      formulas=len(h_c03.FORMULAS), evaluations=ntrees * len(h_c03.FORMULAS))
    run.extra["formula_family"] = h_c03.FORMULAS
    run.engines = dict(crosshair="crosshair-tool 0.0.110 on z3 4.11.2 (enumerates the tree codes)", z3="z3 4.11.2 decides instantiated SMT atoms in the reference")
    run.trusted = ["reference semantics checks/refsem.py (transcribed from islaspec.rst)", "BindExpression.to_tree_prefix for mexprTrees",
                   "numeric quantifiers: candidate numerals derived from the tree (sufficient for the comparison/count shapes of the family)"]
    run.assumptions = ["[decoder]: the solver enumerates all tree codes (mixed-radix, bijective); evaluate() and the reference run natively per tree",
                       "str.to.int only on numeral-valued subtrees"]
    run.outside = ["other grammars, trees with more statements, formulas outside the family; nodes with many children (see C16 trie finding)"]
    res = xh.check_many("C03", HARNESS, cfgs, twin_timeout=120)
    xh.record(run, res, "", keyfn)
    return run.finish(
        "For every closed tree of the bounded family (enumerated exhaustively by the solver from a symbolic code) and every formula of a "
        "%d-formula family (tree quantifiers with/without match expressions and optionals, all structural predicates, count, numeric "
        "quantifiers (second evaluation strategy), SMT atoms, connectives, simplified syntax) the real evaluate() must return exactly the "
        "verdict of the reference semantics, never UNKNOWN, and must not raise." % len(h_c03.FORMULAS))


def replay(d):
    return xh.replay_file(d)
