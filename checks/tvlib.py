"""Shared by the translation-validation checks C07, C08, C09: the program family (constraint
texts and directly built ASTs over small reference grammars), the concrete witness search used
to confirm a `sat` answer of the FOL equivalence query with the real evaluate(), and the worker
pool.

The *programs* (formula shapes) are enumerated; for each program the solver (z3) decides the
equivalence of the two encodings for ALL trees (every tree is one interpretation of the
uninterpreted symbols, see fol.py).
"""
from __future__ import annotations

import itertools
import os
import random
import sys
import time
import traceback
from typing import Any, Callable, Dict, List, Optional, Sequence, Tuple

import vlib

vlib.import_isla()

import z3  # noqa: E402

import fol  # noqa: E402
from isla import language as L  # noqa: E402
from isla.isla_predicates import (  # noqa: E402
    STANDARD_STRUCTURAL_PREDICATES, STANDARD_SEMANTIC_PREDICATES, BEFORE_PREDICATE, SAME_POSITION_PREDICATE,
    IN_TREE_PREDICATE, COUNT_PREDICATE, LEVEL_PREDICATE, DIFFERENT_POSITION_PREDICATE)
from isla.z3_helpers import z3_eq  # noqa: E402

G = vlib.LANG_GRAMMAR


def parse(text: str, grammar=None) -> L.Formula:
    return L.parse_isla(text, grammar or G, STANDARD_STRUCTURAL_PREDICATES, STANDARD_SEMANTIC_PREDICATES)


# --------------------------------------------------------------------------
# Text family (core syntax)

# quantifier chains: list of (text, [(name, type)])
def _chains() -> List[Tuple[str, List[Tuple[str, str]]]]:
    out = []
    for q1 in ("forall", "exists"):
        out.append(("%s <assgn> a in start:" % q1, [("a", "<assgn>")]))
        out.append(('%s <assgn> a="{<var> l} := {<rhs> r}" in start:' % q1,
                    [("a", "<assgn>"), ("l", "<var>"), ("r", "<rhs>")]))
        for q2 in ("forall", "exists"):
            out.append(("%s <assgn> a in start: %s <assgn> b in start:" % (q1, q2),
                        [("a", "<assgn>"), ("b", "<assgn>")]))
            out.append(("%s <assgn> a in start: %s <var> v in a:" % (q1, q2),
                        [("a", "<assgn>"), ("v", "<var>")]))
            out.append(('%s <assgn> a="{<var> l} := <rhs>" in start: %s <assgn> b="<var> := {<rhs> r}" in start:' % (q1, q2),
                        [("a", "<assgn>"), ("l", "<var>"), ("b", "<assgn>"), ("r", "<rhs>")]))
            out.append(("%s int n: %s <assgn> a in start:" % (q1, q2), [("n", "NUM"), ("a", "<assgn>")]))
            for q3 in ("forall", "exists"):
                out.append(("%s <stmt> s in start: %s <assgn> a in s: %s <var> v in a:" % (q1, q2, q3),
                            [("s", "<stmt>"), ("a", "<assgn>"), ("v", "<var>")]))
    return out


def atoms_for(vars_: List[Tuple[str, str]]) -> List[str]:
    """Atoms over the variables in scope (deterministic order)."""
    tree_vars = [n for n, t in vars_ if t != "NUM"]
    num_vars = [n for n, t in vars_ if t == "NUM"]
    out: List[str] = []
    for x in tree_vars:
        out += ['(= %s "a")' % x, "(> (str.len %s) 1)" % x, '(str.prefixof "a" %s)' % x,
                '(str.in_re %s (re.+ (re.range "a" "c")))' % x, 'count(%s, "<var>", "2")' % x,
                '(str.contains %s "1")' % x, '(< (str.to.int %s) 5)' % x, 'inside(%s, start)' % x]
    for x, y in itertools.permutations(tree_vars, 2):
        out += ["(= %s %s)" % (x, y), "before(%s, %s)" % (x, y), "same_position(%s, %s)" % (x, y),
                "inside(%s, %s)" % (x, y), '(str.<= %s %s)' % (x, y), 'level("GE", "<stmt>", %s, %s)' % (x, y),
                "different_position(%s, %s)" % (x, y), '(= (str.len %s) (+ (str.len %s) 1))' % (x, y)]
    for n in num_vars:
        for x in tree_vars:
            out += ["(= (str.len %s) (str.to.int %s))" % (x, n), 'count(%s, "<var>", %s)' % (x, n),
                    "(> (str.to.int %s) (str.len %s))" % (n, x)]
    return out


BODY_PATTERNS = [
    "A", "not A", "A and B", "A or B", "not (A and B)", "not (A or B)", "A and B and C", "A or B or C",
    "(A or B) and (C or D)", "(A and B) or (C and D)", "A and (B or C) and (D or A)",
    "not (A and (B or not C))", "A implies B", "A iff B", "A xor B", "not (A implies (B and C))",
    "(A or B) and (C or D) and (A or D)", "not (not A)", "not (A iff (B xor C))",
    "A and (forall <var> w in start: (B or (= w \"b\")))", "A or not (exists <digit> d in start: (C and (= d \"1\")))",
    "(A and not A) or B", "(A or not A) and B", "A and true", "A or false", "not true or A",
]


def instantiate(pattern: str, atoms: List[str], offset: int) -> str:
    out = pattern
    k = len(atoms)
    for i, ph in enumerate("ABCD"):     # two phases: atoms may contain capital letters
        out = out.replace(ph, "@%d@" % i)
    for i in range(4):
        out = out.replace("@%d@" % i, atoms[(offset + i * 5) % k])
    return out


def core_texts(tier: str, seed: int = 0) -> List[str]:
    chains = _chains()
    texts: List[str] = []
    reps = 1 if tier == "quick" else 8
    rnd = random.Random(seed)
    for ci, (chain, vars_) in enumerate(chains):
        atoms = atoms_for(vars_)
        for pi, pat in enumerate(BODY_PATTERNS):
            if tier == "quick" and (ci + pi) % 3 != seed % 3:
                continue
            for rep in range(reps):
                off = (ci * 7 + pi * 3 + rep * 11 + seed) % len(atoms)
                texts.append("%s (%s)" % (chain, instantiate(pat, atoms, off)))
    rnd.shuffle(texts)
    return texts


# --------------------------------------------------------------------------
# Directly built ASTs (n-ary connectives, shapes no parser produces)

def ast_family(tier: str) -> List[Tuple[str, Callable[[], L.Formula]]]:
    start = L.Constant("start", "<start>")
    a, b = L.BoundVariable("a", "<assgn>"), L.BoundVariable("b", "<assgn>")
    v, w = L.BoundVariable("v", "<var>"), L.BoundVariable("w", "<var>")
    n = L.BoundVariable("n", L.Variable.NUMERIC_NTYPE)

    def smt(expr, *vs):
        return L.SMTFormula(expr, *vs)

    def atoms():
        return [
            smt(z3_eq(v.to_smt(), z3.StringVal("a")), v),
            L.StructuralPredicateFormula(BEFORE_PREDICATE, a, b),
            smt(z3.Length(w.to_smt()) > z3.IntVal(1), w),
            L.StructuralPredicateFormula(SAME_POSITION_PREDICATE, v, w),
            smt(z3.PrefixOf(v.to_smt(), w.to_smt()), v, w),
            L.SemanticPredicateFormula(COUNT_PREDICATE, a, "<var>", "2"),
            L.StructuralPredicateFormula(IN_TREE_PREDICATE, v, a),
            smt(z3.Not(z3_eq(v.to_smt(), w.to_smt())), v, w),
        ]

    def wrap(body: L.Formula, q=(True, False, True, False)) -> L.Formula:
        Q = lambda fa: L.ForallFormula if fa else L.ExistsFormula  # noqa: E731
        f = Q(q[3])(w, b, body)
        f = Q(q[2])(v, a, f)
        f = Q(q[1])(b, start, f)
        return Q(q[0])(a, start, f)

    C, D, N = L.ConjunctiveFormula, L.DisjunctiveFormula, L.NegatedFormula
    shapes: List[Tuple[str, Callable[[List[L.Formula]], L.Formula]]] = [
        ("and3", lambda A: C(A[0], A[1], A[2])),
        ("or3", lambda A: D(A[0], A[1], A[2])),
        ("or4", lambda A: D(A[0], A[1], A[2], A[3])),
        ("and3-of-or", lambda A: C(A[0], D(A[1], A[2]), D(A[2], A[3]))),
        ("and3-of-or3", lambda A: C(D(A[0], A[1], A[2]), D(A[3], A[4]), A[5])),
        ("or3-of-and3", lambda A: D(C(A[0], A[1], A[2]), C(A[3], A[4], A[5]), A[6])),
        ("not-and3", lambda A: N(C(A[0], A[1], A[2]))),
        ("not-or4", lambda A: N(D(A[0], A[1], A[2], A[3]))),
        ("not-and3-of-or", lambda A: N(C(A[0], D(A[1], N(A[2])), D(A[2], A[3])))),
        ("and4-nested", lambda A: C(A[0], C(A[1], D(A[2], A[3])), D(A[4], A[5]), N(A[6]))),
        ("neg-quantifier", lambda A: N(L.ForallFormula(L.BoundVariable("u", "<var>"), a, D(A[0], A[2])))),
        ("and3-with-quantifier", lambda A: C(A[0], L.ExistsFormula(L.BoundVariable("u", "<digit>"), b, D(A[1], A[5])), D(A[2], A[3]))),
        ("same-name-rebinding", lambda A: C(L.ForallFormula(v, a, A[0]), L.ExistsFormula(v, b, N(A[0])), A[3])),
        ("exists-int", lambda A: L.ExistsIntFormula(n, C(smt(z3_eq(z3.Length(v.to_smt()), z3.StrToInt(n.to_smt())), v, n), A[1], D(A[0], A[2])))),
        ("not-forall-int", lambda A: N(L.ForallIntFormula(n, D(smt(z3.Length(v.to_smt()) < z3.StrToInt(n.to_smt()), v, n), A[1])))),
        ("or-of-true", lambda A: D(A[0], L.true(), A[1])),
        ("and-of-false", lambda A: C(A[0], L.false(), A[1])),
    ]
    quants = [(True, False, True, False), (False, True, False, True), (True, True, True, True), (False, False, False, False)]
    out = []
    rot_n = 2 if tier == "quick" else 8
    for name, mk in shapes:
        for rot in range(rot_n):
            for qi, q in enumerate(quants if tier != "quick" else quants[:2]):
                def build(mk=mk, rot=rot, q=q):
                    A = atoms()
                    A = A[rot:] + A[:rot]
                    return wrap(mk(A), q)
                out.append(("%s/rot%d/q%d" % (name, rot, qi), build))
    return out


# --------------------------------------------------------------------------
# Concrete witness search (replay stage): a `sat` FOL answer becomes a VIOLATION only with a real
# tree on which the real evaluate() gives different verdicts.

_TREES: Optional[List[Any]] = None


def witness_trees() -> List[Any]:
    global _TREES
    if _TREES is not None:
        return _TREES
    stmts1 = ["%s := %s" % (l, r) for l in "ab" for r in ("a", "b", "1", "7")]
    progs = list(stmts1)
    progs += ["%s ; %s" % (s, t) for s in stmts1 for t in stmts1]
    progs += ["a := 1 ; b := a ; a := b", "b := 7 ; a := a ; a := 1", "a := a ; a := a ; a := a",
              "a := b ; b := 1 ; a := 7 ; b := b"]
    _TREES = [vlib.parse_tree(G, p) for p in progs]
    return _TREES


def verdict(formula: L.Formula, tree) -> str:
    from isla.evaluator import evaluate
    try:
        return str(evaluate(formula, tree, G))
    except Exception as e:  # noqa
        return "raised %s: %s" % (type(e).__name__, str(e)[:120])


def find_witness(f1: L.Formula, f2: L.Formula, negated: bool, limit_s: float = 60.0) -> Optional[Dict[str, Any]]:
    """A tree where verdict(f1) != verdict(f2) (or, if negated, where they are equal / not opposite)."""
    t0 = time.time()
    for t in witness_trees():
        if time.time() - t0 > limit_s:
            break
        v1, v2 = verdict(f1, t), verdict(f2, t)
        if v1.startswith("raised") or v2.startswith("raised"):
            return dict(tree=str(t), v1=v1, v2=v2)
        if negated:
            if {v1, v2} != {"TRUE", "FALSE"}:
                return dict(tree=str(t), v1=v1, v2=v2)
        elif v1 != v2:
            return dict(tree=str(t), v1=v1, v2=v2)
    return None


# --------------------------------------------------------------------------
# Obligation helpers

def _exc_key(e: BaseException) -> str:
    msg = "_".join(str(e).split())[:40]
    return "raises-%s:%s" % (type(e).__name__, msg)


def check_equiv(enc: "fol.Encoder", f1: L.Formula, f2: L.Formula, negated: bool, name: str,
                timeout_ms: int = 5000, recheck: bool = True) -> Dict[str, Any]:
    """One obligation: enc(f1) <=> (not) enc(f2) for all trees.  Returns a result dict with
    verdict in {discharged, violated, inconclusive} (violated only with a concrete witness)."""
    try:
        e1, e2 = enc.enc(f1), enc.enc(f2)
    except fol.Unsupported as u:
        return dict(name=name, verdict="inconclusive", reason="FOL encoder: %s" % u, solver_s=0.0)
    r, dt, smt2 = fol.equivalent(e1, e2, negated, timeout_ms)
    out: Dict[str, Any] = dict(name=name, solver_s=dt, z3=r)
    if r == "unsat":
        if recheck:
            import smt
            body = smt2.replace("(check-sat)", "")
            rr = smt.session("z3new", 1500).query(body, [])
            out["z3new"] = rr["result"]
            out["solver_s"] += rr["s"]
            if rr["result"] == "sat":
                out.update(verdict="inconclusive", reason="z3 4.11.2 unsat but z3 5.1.0 sat")
                return out
            if rr["result"] == "error":
                out["z3new"] = "error: " + rr.get("raw", "")[-120:]
        out["verdict"] = "discharged"
        return out
    if r == "sat":
        w = find_witness(f1, f2, negated)
        if w is None:
            out.update(verdict="inconclusive", reason="FOL-inequivalent but no concrete witness tree found "
                       "(abstraction has no tree axioms)")
        else:
            out.update(verdict="violated", witness=w)
        return out
    out.update(verdict="inconclusive", reason="z3: " + r)
    return out


def c09_worker(job: Dict[str, Any]) -> Dict[str, Any]:
    """All C09 obligations for one program (text or AST builder index)."""
    import warnings
    warnings.filterwarnings("ignore")
    t0 = time.time()
    res: List[Dict[str, Any]] = []
    try:
        if job["kind"] == "text":
            F = parse(job["text"])
            desc = job["text"]
        else:
            name, mk = ast_family(job["tier"])[job["index"]]
            F = mk()
            desc = "AST %s: %s" % (name, F)
    except Exception as e:  # program could not be built: not an obligation of C09
        return dict(job=job, desc=str(job.get("text") or job.get("index")), build_error="%s: %s" % (type(e).__name__, e), results=[])
    enc = fol.Encoder()
    partner = parse('exists <assgn> p="{<var> pl} := <rhs>" in start: (before(p, start) or (= pl "c"))')

    def rewrite(name: str, fn: Callable[[], L.Formula], f_ref: L.Formula, negated: bool,
                ref2: Optional[L.Formula] = None):
        try:
            g = fn()
        except Exception as e:
            res.append(dict(name=name, verdict="violated", key=name + "/" + _exc_key(e), solver_s=0.0,
                            what="%s raised %s: %s" % (name, type(e).__name__, str(e)[:200]), raised=True))
            return
        if ref2 is not None:
            # combinator: enc(g) <=> enc(f_ref) op enc(ref2); build the reference with the raw constructors
            pass
        r = check_equiv(enc, f_ref, g, negated, name)
        if r["verdict"] == "violated":
            r["key"] = name + "/inequivalent"
            r["what"] = "%s changes the verdict: witness %s; result %s" % (name, r["witness"], str(g)[:300])
        res.append(r)

    rewrite("neg", lambda: -F, F, True)
    rewrite("nnf", lambda: L.convert_to_nnf(F), F, False)
    rewrite("nnf-negate", lambda: L.convert_to_nnf(F, negate=True), F, True)
    rewrite("dnf", lambda: L.convert_to_dnf(L.convert_to_nnf(F)), F, False)
    rewrite("dnf-shallow", lambda: L.convert_to_dnf(L.convert_to_nnf(F), deep=False), F, False)
    rewrite("unique-vars", lambda: L.ensure_unique_bound_variables(F), F, False)
    rewrite("double-neg", lambda: -(-F), F, False)
    # combinators: reference built with the raw n-ary constructors (no simplification)
    C, D, N = L.ConjunctiveFormula, L.DisjunctiveFormula, L.NegatedFormula
    for nm, fn, ref in [
        ("and", lambda: F & partner, C(F, partner)), ("or", lambda: F | partner, D(F, partner)),
        ("and-self", lambda: F & F, F), ("or-self", lambda: F | F, F),
        ("and-negself", lambda: F & N(F), C(F, N(F))), ("or-negself", lambda: N(F) | F, D(N(F), F)),
        ("and-true", lambda: L.true() & F, F), ("or-false", lambda: F | L.false(), F),
        ("and-false", lambda: F & L.false(), C(F, L.false())), ("or-true", lambda: L.true() | F, D(L.true(), F)),
    ]:
        rewrite(nm, fn, ref, False)
    # vacuity guard: a seeded wrong rewrite (outermost quantifier kept under negation) must be refuted
    guard = None
    if isinstance(F, (L.ForallFormula, L.ExistsFormula)):
        W = type(F)(F.bound_variable, F.in_variable, -F.inner_formula, F.bind_expression)
        try:
            r, dt, _ = fol.equivalent(enc.enc(F), enc.enc(W), True, 5000)
            guard = r
        except fol.Unsupported:
            guard = None
    return dict(job={k: v for k, v in job.items()}, desc=desc[:400], results=res, guard=guard, wall_s=time.time() - t0)


def run_pool(worker, jobs: List[Dict[str, Any]], nproc: int) -> List[Dict[str, Any]]:
    import multiprocessing as mp
    ctx = mp.get_context("fork")
    with ctx.Pool(nproc) as pool:
        return list(pool.imap_unordered(worker, jobs, chunksize=4))
