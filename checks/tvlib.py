"""Shared by the translation-validation checks C07, C08, C09: the program family (constraint
texts and directly built ASTs over small reference grammars), the concrete witness search used
to confirm a `sat` answer of the FOL equivalence query with the real evaluate(), and the worker
pool.

The *programs* (formula shapes) are enumerated; for each program the solver (z3) decides the
equivalence of the two encodings for ALL trees (every tree is one interpretation of the
uninterpreted symbols, see fol.py).
"""
from __future__ import annotations

import itertools
import os
import random
import sys
import time
import traceback
from typing import Any, Callable, Dict, List, Optional, Sequence, Tuple

import vlib

vlib.import_isla()

import z3  # noqa: E402

import fol  # noqa: E402
from isla import language as L  # noqa: E402
from isla.isla_predicates import (  # noqa: E402
    STANDARD_STRUCTURAL_PREDICATES, STANDARD_SEMANTIC_PREDICATES, BEFORE_PREDICATE, SAME_POSITION_PREDICATE,
    IN_TREE_PREDICATE, COUNT_PREDICATE, LEVEL_PREDICATE, DIFFERENT_POSITION_PREDICATE)
from isla.z3_helpers import z3_eq  # noqa: E402

G = vlib.LANG_GRAMMAR


def parse(text: str, grammar=None) -> L.Formula:
    return L.parse_isla(text, grammar or G, STANDARD_STRUCTURAL_PREDICATES, STANDARD_SEMANTIC_PREDICATES)


# --------------------------------------------------------------------------
# Text family (core syntax)

# quantifier chains: list of (text, [(name, type)])
def _chains() -> List[Tuple[str, List[Tuple[str, str]]]]:
    out = []
    for q1 in ("forall", "exists"):
        out.append(("%s <assgn> a in start:" % q1, [("a", "<assgn>")]))
        out.append(('%s <assgn> a="{<var> l} := {<rhs> r}" in start:' % q1,
                    [("a", "<assgn>"), ("l", "<var>"), ("r", "<rhs>")]))
        for q2 in ("forall", "exists"):
            out.append(("%s <assgn> a in start: %s <assgn> b in start:" % (q1, q2),
                        [("a", "<assgn>"), ("b", "<assgn>")]))
            out.append(("%s <assgn> a in start: %s <var> v in a:" % (q1, q2),
                        [("a", "<assgn>"), ("v", "<var>")]))
            out.append(('%s <assgn> a="{<var> l} := <rhs>" in start: %s <assgn> b="<var> := {<rhs> r}" in start:' % (q1, q2),
                        [("a", "<assgn>"), ("l", "<var>"), ("b", "<assgn>"), ("r", "<rhs>")]))
            out.append(("%s int n: %s <assgn> a in start:" % (q1, q2), [("n", "NUM"), ("a", "<assgn>")]))
            for q3 in ("forall", "exists"):
                out.append(("%s <stmt> s in start: %s <assgn> a in s: %s <var> v in a:" % (q1, q2, q3),
                            [("s", "<stmt>"), ("a", "<assgn>"), ("v", "<var>")]))
    return out


def atoms_for(vars_: List[Tuple[str, str]]) -> List[str]:
    """Atoms over the variables in scope (deterministic order)."""
    tree_vars = [n for n, t in vars_ if t != "NUM"]
    num_vars = [n for n, t in vars_ if t == "NUM"]
    out: List[str] = []
    for x in tree_vars:
        out += ['(= %s "a")' % x, "(> (str.len %s) 1)" % x, '(str.prefixof "a" %s)' % x,
                '(str.in_re %s (re.+ (re.range "a" "c")))' % x, 'count(%s, "<var>", "2")' % x,
                '(str.contains %s "1")' % x, '(< (str.to.int %s) 5)' % x, 'inside(%s, start)' % x,
                '(>= (str.len %s) 0)' % x, '(str.in_re %s re.all)' % x]
    for x, y in itertools.permutations(tree_vars, 2):
        out += ["(= %s %s)" % (x, y), "before(%s, %s)" % (x, y), "same_position(%s, %s)" % (x, y),
                "inside(%s, %s)" % (x, y), '(str.<= %s %s)' % (x, y), 'level("GE", "<stmt>", %s, %s)' % (x, y),
                "different_position(%s, %s)" % (x, y), '(= (str.len %s) (+ (str.len %s) 1))' % (x, y)]
    for n in num_vars:
        for x in tree_vars:
            out += ["(= (str.len %s) (str.to.int %s))" % (x, n), 'count(%s, "<var>", %s)' % (x, n),
                    "(> (str.to.int %s) (str.len %s))" % (n, x)]
    return out


BODY_PATTERNS = [
    "A", "not A", "A and B", "A or B", "not (A and B)", "not (A or B)", "A and B and C", "A or B or C",
    "(A or B) and (C or D)", "(A and B) or (C and D)", "A and (B or C) and (D or A)",
    "not (A and (B or not C))", "A implies B", "A iff B", "A xor B", "not (A implies (B and C))",
    "(A or B) and (C or D) and (A or D)", "not (not A)", "not (A iff (B xor C))",
    "A and (forall <var> w in start: (B or (= w \"b\")))", "A or not (exists <digit> d in start: (C and (= d \"1\")))",
    "(A and not A) or B", "(A or not A) and B", "A and true", "A or false", "not true or A",
]


def instantiate(pattern: str, atoms: List[str], offset: int) -> str:
    out = pattern
    k = len(atoms)
    for i, ph in enumerate("ABCD"):     # two phases: atoms may contain capital letters
        out = out.replace(ph, "@%d@" % i)
    for i in range(4):
        out = out.replace("@%d@" % i, atoms[(offset + i * 5) % k])
    return out


def core_texts(tier: str, seed: int = 0) -> List[str]:
    chains = _chains()
    texts: List[str] = []
    reps = 1 if tier == "quick" else 8
    rnd = random.Random(seed)
    for ci, (chain, vars_) in enumerate(chains):
        atoms = atoms_for(vars_)
        for pi, pat in enumerate(BODY_PATTERNS):
            if tier == "quick" and (ci + pi) % 3 != seed % 3:
                continue
            for rep in range(reps):
                off = (ci * 7 + pi * 3 + rep * 11 + seed) % len(atoms)
                texts.append("%s (%s)" % (chain, instantiate(pat, atoms, off)))
    texts += name_clash_texts(tier)
    texts += atom_internal_texts()
    rnd.shuffle(texts)
    return texts


def atom_internal_texts() -> List[str]:
    """SMT atoms with Boolean structure INSIDE the atom (S-expression and/or/not): negation and normal forms treat the
    inside of an atom with separate code (z3_push_in_negations)."""
    A, B, C = '(= v "a")', '(> (str.len w) 1)', '(str.prefixof "b" w)'
    atoms = ["(or %s %s)" % (A, B), "(not (or %s %s))" % (A, B), "(not (and %s %s))" % (A, B), "(and %s (or %s %s))" % (A, B, C),
             "(not (or %s (and %s %s)))" % (A, B, C), "(not (not (or %s %s)))" % (A, C), "(or %s %s %s)" % (A, B, C),
             "(not (and %s %s %s))" % (A, B, C), "(=> %s %s)" % (A, B), "(not (=> %s (or %s %s)))" % (A, B, C)]
    chain = "forall <var> v in start: exists <var> w in start:"
    out = []
    for i, X in enumerate(atoms):
        out.append("%s %s" % (chain, X))
        out.append("%s not %s" % (chain, X))
        out.append("%s (not (%s and %s) or before(v, w))" % (chain, X, atoms[(i + 3) % len(atoms)]))
    return out


def name_clash_texts(tier: str) -> List[str]:
    """Sibling quantifier blocks that reuse bound-variable names, including names with numeric suffixes
    (the renaming scheme of ensure_unique_bound_variables / fresh_vars)."""
    names = ["x", "x_0", "x_1", "y"] if tier == "quick" else ["x", "x_0", "x_1", "x_2", "y", "y_0"]
    atoms = ["(= %s %s)", "(not (= %s %s))", "before(%s, %s)", "(str.prefixof %s %s)"]
    blocks = []
    for i, (n1, n2) in enumerate(itertools.product(names, names)):
        if n1 == n2:
            continue
        q1, q2 = (("forall", "exists"), ("exists", "forall"), ("forall", "forall"))[i % 3]
        blocks.append("(%s <var> %s in start: %s <var> %s in start: %s)" % (q1, n1, q2, n2, atoms[i % 4] % (n1, n2)))
    out = []
    step = 5 if tier == "quick" else 1
    pairs = list(itertools.product(range(len(blocks)), repeat=2))
    for k, (i, j) in enumerate(pairs):
        if k % step:
            continue
        out.append("%s %s %s" % (blocks[i], ("and", "or")[k % 2], blocks[j]))
    # three siblings and a nested re-binding
    for k in range(0, len(blocks) - 2, 4 if tier == "quick" else 1):
        out.append("%s and %s and %s" % (blocks[k], blocks[k + 1], blocks[k + 2]))
        out.append("forall <assgn> x in start: (%s or %s)" % (blocks[k], blocks[(k + 3) % len(blocks)]))
    return out


# --------------------------------------------------------------------------
# Directly built ASTs (n-ary connectives, shapes no parser produces)

def ast_family(tier: str) -> List[Tuple[str, Callable[[], L.Formula]]]:
    start = L.Constant("start", "<start>")
    a, b = L.BoundVariable("a", "<assgn>"), L.BoundVariable("b", "<assgn>")
    v, w = L.BoundVariable("v", "<var>"), L.BoundVariable("w", "<var>")
    n = L.BoundVariable("n", L.Variable.NUMERIC_NTYPE)

    def smt(expr, *vs):
        return L.SMTFormula(expr, *vs)

    def atoms():
        return [
            smt(z3_eq(v.to_smt(), z3.StringVal("a")), v),
            L.StructuralPredicateFormula(BEFORE_PREDICATE, a, b),
            smt(z3_eq(w.to_smt(), z3.StringVal("b")), w),
            L.StructuralPredicateFormula(SAME_POSITION_PREDICATE, v, w),
            smt(z3.PrefixOf(v.to_smt(), w.to_smt()), v, w),
            L.SemanticPredicateFormula(COUNT_PREDICATE, a, "<var>", "2"),
            L.StructuralPredicateFormula(IN_TREE_PREDICATE, v, a),
            smt(z3.Not(z3_eq(v.to_smt(), w.to_smt())), v, w),
        ]

    def wrap(body: L.Formula, q=(True, False, True, False)) -> L.Formula:
        Q = lambda fa: L.ForallFormula if fa else L.ExistsFormula  # noqa: E731
        f = Q(q[3])(w, b, body)
        f = Q(q[2])(v, a, f)
        f = Q(q[1])(b, start, f)
        return Q(q[0])(a, start, f)

    C, D, N = L.ConjunctiveFormula, L.DisjunctiveFormula, L.NegatedFormula
    shapes: List[Tuple[str, Callable[[List[L.Formula]], L.Formula]]] = [
        ("and3", lambda A: C(A[0], A[1], A[2])),
        ("or3", lambda A: D(A[0], A[1], A[2])),
        ("or4", lambda A: D(A[0], A[1], A[2], A[3])),
        ("and3-of-or", lambda A: C(A[0], D(A[1], A[2]), D(A[2], A[3]))),
        ("and3-of-or3", lambda A: C(D(A[0], A[1], A[2]), D(A[3], A[4]), A[5])),
        ("or3-of-and3", lambda A: D(C(A[0], A[1], A[2]), C(A[3], A[4], A[5]), A[6])),
        ("not-and3", lambda A: N(C(A[0], A[1], A[2]))),
        ("not-or4", lambda A: N(D(A[0], A[1], A[2], A[3]))),
        ("not-and3-of-or", lambda A: N(C(A[0], D(A[1], N(A[2])), D(A[2], A[3])))),
        ("and4-nested", lambda A: C(A[0], C(A[1], D(A[2], A[3])), D(A[4], A[5]), N(A[6]))),
        ("neg-quantifier", lambda A: N(L.ForallFormula(L.BoundVariable("u", "<var>"), a, D(A[0], A[2])))),
        ("and3-with-quantifier", lambda A: C(A[0], L.ExistsFormula(L.BoundVariable("u", "<digit>"), b, D(A[1], A[5])), D(A[2], A[3]))),
        ("same-name-rebinding", lambda A: C(L.ForallFormula(v, a, A[0]), L.ExistsFormula(v, b, N(A[0])), A[3])),
        ("exists-int", lambda A: L.ExistsIntFormula(n, C(smt(z3_eq(z3.Length(v.to_smt()), z3.StrToInt(n.to_smt())), v, n), A[1], D(A[0], A[2])))),
        ("not-forall-int", lambda A: N(L.ForallIntFormula(n, D(smt(z3.Length(v.to_smt()) < z3.StrToInt(n.to_smt()), v, n), A[1])))),
        ("or-of-true", lambda A: D(A[0], L.true(), A[1])),
        ("and-of-false", lambda A: C(A[0], L.false(), A[1])),
    ]
    quants = [(True, False, True, False), (False, True, False, True), (True, True, True, True), (False, False, False, False)]
    out = []
    # name clashes between sibling / nested quantifier blocks, built WITHOUT the parser (parse_isla already
    # runs ensure_unique_bound_variables, so parsed formulas never exercise the renaming)
    pool = ["x", "x_0", "x_1", "y"] if tier == "quick" else ["x", "x_0", "x_1", "x_2", "y", "y_0", "y_1"]

    def block(n1, n2, q1, q2, neq):
        x, y = L.BoundVariable(n1, "<var>"), L.BoundVariable(n2, "<var>")
        eq = z3_eq(x.to_smt(), y.to_smt())
        body = smt(z3.Not(eq), x, y) if neq else smt(eq, x, y)
        Q = {"A": L.ForallFormula, "E": L.ExistsFormula}
        return Q[q1](x, start, Q[q2](y, start, body))

    # Block j is the one that gets renamed.  Its verdict must be visible and must change under variable
    # capture on trees with >= 2 different <var> values: forall-exists-neq (TRUE -> FALSE), exists-forall-eq
    # (FALSE -> TRUE); block i is chosen neutral for the connective.
    pairs = [(n1, n2) for n1 in pool for n2 in pool if n1 != n2]
    for i, j in itertools.product(range(len(pairs)), repeat=2):
        def p1(i=i, j=j):
            return L.ConjunctiveFormula(block(*pairs[i], "A", "E", False), block(*pairs[j], "A", "E", True))

        def p2(i=i, j=j):
            return L.DisjunctiveFormula(block(*pairs[i], "A", "A", False), block(*pairs[j], "E", "A", False))

        def p3(i=i, j=j):   # renamed block below another quantifier that re-uses a name
            z = L.BoundVariable(pairs[i][1], "<var>")
            return L.ExistsFormula(z, start, L.ConjunctiveFormula(block(*pairs[i], "A", "E", False), block(*pairs[j], "A", "E", True)))
        def p4(i=i, j=j, both=True):   # the renamed block binds its second name in a match expression
            n1, n2 = pairs[j]
            x, y = L.BoundVariable(n1, "<assgn>"), L.BoundVariable(n2, "<var>")
            body = smt(z3.PrefixOf(y.to_smt(), x.to_smt()), x, y) if both else smt(z3_eq(x.to_smt(), z3.StringVal("a := 1")), x)
            blk = L.ForallFormula(x, start, body, L.BindExpression(y, " := ", "<rhs>"))
            first = block(*pairs[i], "A", "E", False)
            return L.ConjunctiveFormula(first, blk)
        tag = "%s-%s" % ("".join(pairs[i]), "".join(pairs[j]))
        out.append(("name-clash/mexpr-both/" + tag, p4))
        out.append(("name-clash/mexpr-one/" + tag, lambda i=i, j=j: p4(i, j, False)))
        out.append(("name-clash/and/" + tag, p1))
        out.append(("name-clash/or/" + tag, p2))
        # (nested re-binding of the SAME variable - p3 - is not used: ISLa's well-formedness forbids it and the real
        #  evaluate(), which judges witnesses, has no defined behaviour under shadowing)
    # sibling quantifiers over the SAME variable name but DIFFERENT nonterminals with otherwise identical bodies: equality of
    # formulas (used by the simplifying & and |, NNF and DNF) must take the nonterminal into account
    def typed(name, t1, t2, q1, q2, conn, lit):
        x1, x2 = L.BoundVariable(name, t1), L.BoundVariable(name, t2)
        Q = {"A": L.ForallFormula, "E": L.ExistsFormula}
        f1 = Q[q1](x1, start, smt(z3_eq(x1.to_smt(), z3.StringVal(lit)), x1))
        f2 = Q[q2](x2, start, smt(z3_eq(x2.to_smt(), z3.StringVal(lit)), x2))
        return conn(f1, f2)
    for t1, t2 in (("<var>", "<rhs>"), ("<rhs>", "<var>"), ("<digit>", "<rhs>"), ("<var>", "<digit>"), ("<assgn>", "<stmt>")):
        for q1, q2 in (("E", "E"), ("A", "A"), ("A", "E")):
            for lit in ("a", "1"):
                tag = "%s%s-%s%s-%s" % (q1, t1, q2, t2, lit)
                out.append(("name-clash/types/or/" + tag, lambda a_=(t1, t2, q1, q2, lit): typed("e", a_[0], a_[1], a_[2], a_[3], L.DisjunctiveFormula, a_[4])))
                out.append(("name-clash/types/and/" + tag, lambda a_=(t1, t2, q1, q2, lit): typed("e", a_[0], a_[1], a_[2], a_[3], L.ConjunctiveFormula, a_[4])))
                out.append(("name-clash/types/op-or/" + tag, lambda a_=(t1, t2, q1, q2, lit): typed("e", a_[0], a_[1], a_[2], a_[3], (lambda f, g: f | g), a_[4])))
                out.append(("name-clash/types/op-and/" + tag, lambda a_=(t1, t2, q1, q2, lit): typed("e", a_[0], a_[1], a_[2], a_[3], (lambda f, g: f & g), a_[4])))
    rot_n = 2 if tier == "quick" else 8
    for name, mk in shapes:
        for rot in range(rot_n):
            for qi, q in enumerate(quants if tier != "quick" else quants[:2]):
                def build(mk=mk, rot=rot, q=q):
                    A = atoms()
                    A = A[rot:] + A[:rot]
                    return wrap(mk(A), q)
                out.append(("%s/rot%d/q%d" % (name, rot, qi), build))
    return out


# --------------------------------------------------------------------------
# Concrete witness search (replay stage): a `sat` FOL answer becomes a VIOLATION only with a real
# tree on which the real evaluate() gives different verdicts.

_TREES: Dict[str, List[Any]] = {}


def witness_trees(gname: str = "lang") -> List[Any]:
    if gname in _TREES:
        return _TREES[gname]
    if gname == "lang":
        stmts1 = ["%s := %s" % (l, r) for l in "ab" for r in ("a", "b", "1", "7")]
        progs = list(stmts1)
        progs += ["%s ; %s" % (s, t) for s in stmts1 for t in stmts1]
        progs += ["a := 1 ; b := a ; a := b", "b := 7 ; a := a ; a := 1", "a := a ; a := a ; a := a",
                  "a := b ; b := 1 ; a := 7 ; b := b", "c := c", "c := 1 ; a := c"]
        gram = G
    elif gname == "xml":
        progs = ["<a/>", "<b/>", "<a>x</a>", "<a>y</b>", "<b><a/></b>", "<a><b/>x</a>", "<a><a/><b/></b>",
                 "<b><a>x</a><b/></a>", "<a><b><a/></b></a>", "<b><b/><b>y</b>x</b>"]
        gram = vlib.XMLISH_GRAMMAR
    elif gname == "row":
        import itertools as _it
        progs = ["x", "y"] + [",".join(c) for c in (("x",) * 12, ("y",) * 12)] + \
                [",".join("x" if i == k else "y" for i in range(12)) for k in range(12)] + \
                [",".join("y" if i == k else "x" for i in range(12)) for k in range(12)]
        gram = ROW_GRAMMAR
    elif gname == "alt":
        progs = [d + f + e for d in "xy" for f in "xy" for e in "12"] + [f1 + e1 + f2 + e2 for f1 in "xy" for e1 in "12" for f2 in "xy" for e2 in "12"]
        gram = ALT_GRAMMAR
    else:
        progs = ['k"v"', 'q"w"', "k\\v", "q\\'", "k\nw", "{v}", "{'}", "[w]", "k\tv", 'k"\'"']
        gram = ESC_GRAMMAR
    _TREES[gname] = [vlib.parse_tree(gram, p) for p in progs]
    return _TREES[gname]


_DOMAIN_ERRORS = [0]


def _count_domain_errors():
    """ISLa evaluates an atom whose term is undefined (str.to.int of a non-numeral, ...) to false by raising and catching a
    DomainError - in BOTH polarities, a documented deviation from SMT-LIB's total functions (C05 known finding).  On such a
    tree neither F nor not F holds, so it cannot serve as a witness for a wrong rewrite: witnesses on which a DomainError was
    raised are skipped (the constructor is counted)."""
    import isla.z3_helpers as zh
    if getattr(zh.DomainError, "_verif_counted", False):
        return
    orig = zh.DomainError.__init__

    def counted(self, *a, **k):
        _DOMAIN_ERRORS[0] += 1
        orig(self, *a, **k)
    zh.DomainError.__init__ = counted
    zh.DomainError._verif_counted = True


def verdict(formula: L.Formula, tree, gname: str = "lang") -> str:
    from isla.evaluator import evaluate
    _count_domain_errors()
    try:
        return str(evaluate(formula, tree, GRAMMARS[gname]))
    except Exception as e:  # noqa
        return "raised %s: %s" % (type(e).__name__, str(e)[:120])


def find_witness(f1: L.Formula, f2: L.Formula, negated: bool, limit_s: float = 60.0, gname: str = "lang",
                 tree_filter=None) -> Optional[Dict[str, Any]]:
    """A tree where verdict(f1) != verdict(f2) (or, if negated, where they are equal / not opposite)."""
    t0 = time.time()
    for t in witness_trees(gname):
        if tree_filter is not None and not tree_filter(t):
            continue
        if time.time() - t0 > limit_s:
            break
        before = _DOMAIN_ERRORS[0]
        v1, v2 = verdict(f1, t, gname), verdict(f2, t, gname)
        if _DOMAIN_ERRORS[0] != before:
            continue    # an atom is undefined on this tree (see _count_domain_errors)
        if v1.startswith("raised") and v2.startswith("raised"):
            continue    # the program itself is outside evaluate's domain on this tree
        if v1.startswith("raised") or v2.startswith("raised"):
            return dict(tree=str(t), v1=v1, v2=v2)
        if "UNKNOWN" in (v1, v2):
            continue    # the evaluator gave up (its Z3 queries have wall-clock timeouts): no verdict to compare (C03's subject)
        if negated:
            if {v1, v2} != {"TRUE", "FALSE"}:
                return dict(tree=str(t), v1=v1, v2=v2)
        elif v1 != v2:
            return dict(tree=str(t), v1=v1, v2=v2)
        # second judge: the reference semantics (checks/refsem.py, independent of ISLa's evaluator) - a change that damages
        # a rewrite can damage evaluate() in the same way (e.g. equality of variables), so that the two verdicts still match
        r1, r2 = ref_verdict(f1, t, gname), ref_verdict(f2, t, gname)
        if r1 is not None and r2 is not None and ((r1 == r2) if negated else (r1 != r2)):
            return dict(tree=str(t), v1=str(r1).upper(), v2=str(r2).upper(), judge="reference semantics (checks/refsem.py)")
    return None


def ref_verdict(formula: L.Formula, tree, gname: str = "lang") -> Optional[bool]:
    import refsem
    try:
        return bool(refsem.ref_eval(formula, tree, GRAMMARS[gname]))
    except Exception:   # RefUndefined, unsupported construct
        return None


# --------------------------------------------------------------------------
# Obligation helpers

def _exc_key(e: BaseException) -> str:
    msg = "_".join(str(e).split())[:40]
    return "raises-%s:%s" % (type(e).__name__, msg)


def check_equiv(enc: "fol.Encoder", f1: L.Formula, f2: L.Formula, negated: bool, name: str,
                timeout_ms: int = 5000, recheck: bool = True, gname: str = "lang") -> Dict[str, Any]:
    """One obligation: enc(f1) <=> (not) enc(f2) for all trees.  Returns a result dict with
    verdict in {discharged, violated, inconclusive} (violated only with a concrete witness)."""
    try:
        e1, e2 = enc.enc(f1), enc.enc(f2)
    except fol.Unsupported as u:
        return dict(name=name, verdict="inconclusive", reason="FOL encoder: %s" % u, solver_s=0.0)
    r, dt, smt2 = fol.equivalent(e1, e2, negated, timeout_ms)
    out: Dict[str, Any] = dict(name=name, solver_s=dt, z3=r)
    if r == "unsat":
        if recheck:
            import smt
            body = smt2.replace("(check-sat)", "")
            rr = smt.session("z3new", 1500).query(body, [])
            out["z3new"] = rr["result"]
            out["solver_s"] += rr["s"]
            if rr["result"] == "sat":
                out.update(verdict="inconclusive", reason="z3 4.11.2 unsat but z3 5.1.0 sat")
                return out
            if rr["result"] == "error":
                out["z3new"] = "error: " + rr.get("raw", "")[-120:]
        out["verdict"] = "discharged"
        return out
    # not proved equivalent (sat, or unknown within the time limit): look for a concrete tree on which the real
    # evaluate() disagrees - such a tree is a genuine violation whatever the solver said
    w = find_witness(f1, f2, negated, gname=gname)
    if w is not None:
        out.update(verdict="violated", witness=w)
    elif r == "sat":
        out.update(verdict="inconclusive", reason="FOL-inequivalent but no concrete witness tree found "
                   "(abstraction has no tree axioms)")
    else:
        out.update(verdict="inconclusive", reason="z3: " + r)
    return out


def c09_worker(job: Dict[str, Any]) -> Dict[str, Any]:
    """All C09 obligations for one program (text or AST builder index)."""
    import warnings
    warnings.filterwarnings("ignore")
    t0 = time.time()
    res: List[Dict[str, Any]] = []
    try:
        if job["kind"] == "text":
            F = parse(job["text"])
            desc = job["text"]
        else:
            name, mk = ast_family(job["tier"])[job["index"]]
            F = mk()
            desc = "AST %s: %s" % (name, F)
    except Exception as e:  # program could not be built: not an obligation of C09
        return dict(job=job, desc=str(job.get("text") or job.get("index")), build_error="%s: %s" % (type(e).__name__, e), results=[])
    enc = fol.Encoder()
    partner = parse('exists <assgn> p="{<var> pl} := <rhs>" in start: (before(p, start) or (= pl "c"))')

    def rewrite(name: str, fn: Callable[[], L.Formula], f_ref: L.Formula, negated: bool,
                ref2: Optional[L.Formula] = None):
        try:
            g = fn()
        except Exception as e:
            res.append(dict(name=name, verdict="violated", key=name + "/" + _exc_key(e), solver_s=0.0,
                            what="%s raised %s: %s" % (name, type(e).__name__, str(e)[:200]), raised=True))
            return
        if ref2 is not None:
            # combinator: enc(g) <=> enc(f_ref) op enc(ref2); build the reference with the raw constructors
            pass
        r = check_equiv(enc, f_ref, g, negated, name)
        if r["verdict"] == "violated":
            r["key"] = name + "/inequivalent"
            r["what"] = "%s changes the verdict: witness %s; result %s" % (name, r["witness"], str(g)[:300])
        res.append(r)

    rewrite("neg", lambda: -F, F, True)
    rewrite("nnf", lambda: L.convert_to_nnf(F), F, False)
    rewrite("nnf-negate", lambda: L.convert_to_nnf(F, negate=True), F, True)
    rewrite("dnf", lambda: L.convert_to_dnf(L.convert_to_nnf(F)), F, False)
    rewrite("dnf-shallow", lambda: L.convert_to_dnf(L.convert_to_nnf(F), deep=False), F, False)
    rewrite("unique-vars", lambda: L.ensure_unique_bound_variables(F), F, False)
    rewrite("double-neg", lambda: -(-F), F, False)
    # combinators: reference built with the raw n-ary constructors (no simplification)
    C, D, N = L.ConjunctiveFormula, L.DisjunctiveFormula, L.NegatedFormula
    for nm, fn, ref in [
        ("and", lambda: F & partner, C(F, partner)), ("or", lambda: F | partner, D(F, partner)),
        ("and-self", lambda: F & F, F), ("or-self", lambda: F | F, F),
        ("and-negself", lambda: F & N(F), C(F, N(F))), ("or-negself", lambda: N(F) | F, D(N(F), F)),
        ("and-true", lambda: L.true() & F, F), ("or-false", lambda: F | L.false(), F),
        ("and-false", lambda: F & L.false(), C(F, L.false())), ("or-true", lambda: L.true() | F, D(L.true(), F)),
    ]:
        rewrite(nm, fn, ref, False)
    # vacuity guard: a seeded wrong rewrite (outermost quantifier kept under negation) must be refuted
    guard = None
    if isinstance(F, (L.ForallFormula, L.ExistsFormula)):
        try:
            W = type(F)(F.bound_variable, F.in_variable, L.NegatedFormula(F.inner_formula), F.bind_expression)
            r, dt, _ = fol.equivalent(enc.enc(F), enc.enc(W), True, 5000)
            guard = r
        except fol.Unsupported:
            guard = None
    return dict(job={k: v for k, v in job.items()}, desc=desc[:400], results=res, guard=guard, wall_s=time.time() - t0)


def run_pool(worker, jobs: List[Dict[str, Any]], nproc: int) -> List[Dict[str, Any]]:
    import multiprocessing as mp
    ctx = mp.get_context("fork")
    with ctx.Pool(nproc) as pool:
        return list(pool.imap_unordered(worker, jobs, chunksize=4))


# --------------------------------------------------------------------------
# More grammars and the sugared / escaping families (C07, C08)

ESC_GRAMMAR = {
    "<start>": ["<pair>"],
    "<pair>": ['<key>"<val>"', "<key>\\<val>", "<key>\n<val>", "{<val>}", "[<val>]", "<key>\t<val>"],
    "<key>": ["k", "q"],
    "<val>": ["v", "w", "'"],
}

GRAMMARS = {"lang": G, "esc": ESC_GRAMMAR, "xml": vlib.XMLISH_GRAMMAR}


def sugar_texts(tier: str) -> List[Tuple[str, str]]:
    """(grammar name, text) in simplified syntax: free nonterminals, omitted `in start` / names,
    XPath child, index and descendant axes, infix/prefix SMT, negative literals, implies/iff/xor."""
    T: List[Tuple[str, str]] = []
    lang = [
        '<var> = "a"',
        '<var> = "a" and <digit> = "1"',
        '<var> = "a" or <digit> = "1"',
        'not <var> = "a"',
        '<var> = "a" implies <digit> = "1"',
        '<var> = "a" iff <rhs> = "1"',
        '<var> = "a" xor <rhs> = "1"',
        '<assgn>.<var> = "a"',
        '<assgn>.<rhs>.<var> = "a"',
        '<assgn>.<rhs>.<var> = <assgn>.<var>',
        '<stmt>.<assgn>.<var> = "a"',
        '<stmt>.<stmt>.<assgn>.<var> = "b"',
        '<assgn>..<var> = "a"',
        '<stmt>..<digit> = "1"',
        '<stmt>.<assgn>..<var> = "c"',
        '<start>..<var> = "a"',
        '<start>.<stmt>.<assgn>.<var> = "a"',
        'str.len(<var>) > 0',
        'str.len(<var>) >= 1 and str.to.int(<digit>) < 5',
        'str.to.int(<digit>) + 1 = 5',
        'str.to.int(<digit>) > -1',
        'str.to.int(<digit>) * 2 mod 3 = 1',
        '17 + str.to.int(<digit>) = 20',
        'str.prefixof("a", <var>)',
        'str.in_re(<var>, re.+(re.range("a", "c")))',
        '(= <var> "a")',
        'forall <assgn> a: exists <var> v in a: v = "a"',
        'forall <assgn>: exists <var> in <assgn>: <var> = "a"',
        'exists <assgn>: <assgn> = "a := b"',
        'exists <assgn> decl: (before(decl, <assgn>) and <assgn>.<rhs>.<var> = decl.<var>)',
        'forall <assgn> a="{<var> l} := {<rhs> r}": l = r',
        'forall <assgn> a="{<var> l} := {<rhs> r}": (l = r implies str.len(r) = 1)',
        'exists <assgn> a: forall <assgn> b: (before(a, b) or same_position(a, b))',
        'forall <assgn> a: a.<rhs>.<digit> = "1"',
        'forall <assgn> a: (a.<var> = "a" implies a.<rhs>.<digit> = "1")',
        'exists int n: (str.to.int(n) = str.len(<var>) and count(start, "<assgn>", n))',
        'forall int n: (count(<stmt>, "<var>", n) implies str.to.int(n) > 0)',
        'count(<stmt>, "<assgn>", "2")',
        'level("GE", "<stmt>", <var>, <digit>)',
        'nth("1", <var>, <assgn>)',
        'inside(<var>, <rhs>) implies <var> = "b"',
        'before(<var>, <digit>) and not <var> = "c"',
        '<assgn> = "a := 1" or <assgn>.<var> = "b"',
        'start = "a := 1"',
        '<start> = "a := 1"',
        'exists <stmt> s in start: s = "a := 1"',
        'const t: <start>; forall <var> v in t: v = "a"',
        # match expressions that bind no variable (they still restrict the quantifier's domain)
        'forall <assgn> a="<var> := <digit>" in start: (= a "a := 1")',
        'exists <assgn> a="<var> := <var>" in start: (str.prefixof "b" a)',
        'forall <stmt> s="<assgn> ; <stmt>" in start: (> (str.len s) 6)',
        'exists <rhs> r="<digit>" in start: (= r "7")',
        'forall <assgn> a="<var> := <rhs>" in start: exists <var> v in a: (= v "a")',
        # optional parts of a match expression
        'forall <stmt> s="{<assgn> a}[ ; <stmt>]" in start: (str.prefixof "a" a)',
        'exists <stmt> s="<assgn>[ ; {<stmt> t}]" in start: (= t "a := 1")',
        'forall <stmt> s="{<assgn> a}[ ; <stmt>]" in start: exists <stmt> u="<assgn>[ ; {<stmt> t}]" in s: (not (= a t))',
    ]
    T += [("lang", t) for t in lang]
    xml = [
        '<tree>.<id> = "a"',
        '<tree>.<id>[2] = "a"',
        '<tree>.<id>[1] = <tree>.<id>[2]',
        '<tree>.<inner>.<tree>.<id> = "b"',
        '<tree>..<id> = "a"',
        '<inner>.<tree>[1].<id> = "a"',
        'forall <tree> t="<{<id> o}><inner></{<id> c}>": o = c',
        'forall <tree> t="<{<id> o}[<inner>]</{<id> c}>": o = c' if False else 'exists <tree> t="<{<id> o}/>": o = "a"',
        '<tree>.<id> = "a" implies <text> = "x"',
        'str.len(<tree>.<inner>.<text>) = 1',
    ]
    T += [("xml", t) for t in xml]
    esc = [
        r'forall <pair> p="{<key> k}\"{<val> v}\"" in start: (= k "k")',
        r'forall <pair> p="{<key> k}\\{<val> v}" in start: (= v "w")',
        r'forall <pair> p="{<key> k}\n{<val> v}" in start: (= v "w")',
        r'forall <pair> p="{<key> k}\t{<val> v}" in start: (= v "w")',
        r'forall <pair> p="{{{<val> v}}}" in start: (= v "w")',
        r'forall <pair> p="[{<val> v}]" in start: (= v "w")' if False else r'forall <val> v in start: (= v "\"")',
        r'forall <val> v in start: (= v "\\")',
        r'forall <val> v in start: (not (= v "a\nb"))',
        r"""forall <val> v in start: (= v "'")""",
        r'forall <pair> p in start: (str.contains p "\"")',
        r'forall <pair> p in start: (str.contains p "\\")',
        r'forall <pair> p in start: (str.contains p "\t")',
        'forall <pair> p in start: (str.contains p "é")',
        r'<pair>.<val> = "\""',
        r'<pair>.<key> = "k" and <pair>.<val> = "v"',
    ]
    T += [("esc", t) for t in esc]
    # the same match expressions below another quantifier (printers indent nested quantifiers; a line break inside a
    # match expression must survive that) - below a tree quantifier and below a numeric quantifier
    for t in esc:
        if t.startswith("forall <pair> p=") and " in start: " in t:
            T.append(("esc", "forall <start> s in start: " + t.replace(" in start: ", " in s: ", 1)))
            T.append(("esc", "exists int n: ((= n \"1\") and " + t + ")"))
            T.append(("esc", "forall <start> s in start: exists <pair> q in s: " + t.replace(" in start: ", " in q: ", 1)))
    return T


def smt_operator_texts() -> List[Tuple[str, str]]:
    """One constraint per SMT-LIB operator token of the ISLa lexer (S-expression form)."""
    v = "v"
    ops = [
        '(= (abs (str.to.int d)) 1)', '(str.in_re v (re.+ (str.to_re "a")))', '(str.in_re v (re.* (str.to_re "a")))',
        '(= (str.len v) 1)', '(str.in_re v re.none)', '(str.in_re v re.all)', '(str.in_re v re.allchar)',
        '(= (str.at v 0) "a")', '(= (str.substr v 0 1) "a")', '(str.prefixof "a" v)', '(str.suffixof "a" v)',
        '(str.contains v "a")', '(= (str.indexof v "a" 0) 0)', '(= (str.replace v "a" "b") "b")',
        '(= (str.replace_all v "a" "b") "b")', '(= (str.replace_re v (str.to_re "a") "b") "b")',
        '(= (str.replace_re_all v (str.to_re "a") "b") "b")',
        '(str.in_re v (re.union (str.to_re "a") (str.to_re "b")))', '(str.in_re v (re.inter re.allchar (str.to_re "b")))',
        '(str.in_re v (re.comp (str.to_re "b")))', '(str.in_re v (re.diff re.allchar (str.to_re "b")))',
        '(str.in_re v (re.opt (str.to_re "b")))', '(str.in_re v (re.range "a" "c"))',
        '(str.in_re v ((_ re.loop 1 2) (str.to_re "a")))' if False else '(str.in_re v (re.++ (str.to_re "a") (re.* (str.to_re "b"))))',
        '(str.is_digit d)', '(= (str.to_code v) 97)', '(= (str.from_code 97) v)', '(= (str.from_int 1) d)',
        '(= (str.++ v "x") "ax")', '(str.<= v "b")', '(= (* (str.to.int d) 2) 4)', '(= (div (str.to.int d) 2) 1)',
        '(= (mod (str.to.int d) 2) 1)', '(= (+ (str.to.int d) 2) 3)', '(= (- (str.to.int d) 2) 1)',
        '(>= (str.to.int d) 1)', '(<= (str.to.int d) 1)', '(> (str.to.int d) 1)', '(< (str.to.int d) 1)',
        '(and (= v "a") (= d "1"))', '(or (= v "a") (= d "1"))', '(=> (= v "a") (= d "1"))', '(xor (= v "a") (= d "1"))',
        '(= (^ (str.to.int d) 2) 4)', '(= (str.to.int d) (- 1))', '(= (str.to.int d) -1)',
        '(ite (= v "a") (= d "1") (= d "2"))' if False else '(= v (str.++ "a" ""))',
    ]
    # indexed regular-expression operators: every small bound combination (a bound of 0 is a special case of printers)
    ops += ['(str.in_re v ((_ re.loop %d %d) (str.to_re "a")))' % (lo, hi) for lo in range(3) for hi in range(lo, 3)]
    ops += ['(str.in_re v ((_ re.loop %d %d) (re.union (str.to_re "a") (str.to_re "b"))))' % (lo, hi) for lo, hi in ((0, 0), (0, 1), (1, 1))]
    ops += ['(str.in_re v ((_ re.^ %d) (str.to_re "a")))' % n for n in range(3)]
    ops += ['(str.in_re v ((_ re.loop %d) (str.to_re "a")))' % n for n in range(3)]
    return [("lang", "forall <var> v in start: exists <digit> d in start: %s" % o) for o in ops]


def c07_worker(job: Dict[str, Any]) -> Dict[str, Any]:
    import warnings
    warnings.filterwarnings("ignore")
    gname, text = job["grammar"], job["text"]
    gram = GRAMMARS[gname]
    res: List[Dict[str, Any]] = []
    desc = "[%s] %s" % (gname, text)
    try:
        F = parse(text, gram)
    except BaseException as e:
        return dict(job=job, desc=desc, rejected="%s: %s" % (type(e).__name__, str(e)[:200]), results=[])
    try:
        U = L.unparse_isla(F)
    except Exception as e:
        res.append(dict(name="unparse", verdict="violated", key="unparse/" + _exc_key(e), solver_s=0.0,
                        what="unparse_isla raised %s: %s" % (type(e).__name__, str(e)[:200])))
        return dict(job=job, desc=desc, results=res)
    try:
        F2 = parse(U, gram)
    except BaseException as e:
        kind = classify_unparse_failure(F, U)
        res.append(dict(name="reparse", verdict="violated", key="reparse/%s/raises-%s" % (kind, type(e).__name__), solver_s=0.0,
                        what="parse_isla rejects the unparsed text %r (%s: %s)" % (U, type(e).__name__, str(e)[:160])))
        return dict(job=job, desc=desc, results=res, unparsed=U)
    enc = fol.Encoder()
    r = check_equiv(enc, F, F2, False, "reparse-equivalent", gname=gname)
    if r["verdict"] == "violated":
        r["key"] = "reparse-equivalent/inequivalent"
        r["what"] = "re-parsed constraint evaluates differently: witness %s; unparsed text %r" % (r["witness"], U)
    res.append(r)
    # concrete side conditions (stated by the property itself)
    if F2 == F:
        res.append(dict(name="reparse-equal", verdict="discharged", solver_s=0.0))
    else:
        cls = classify_unparse_failure(F, U)
        if cls == "other" and str(F) == str(F2):
            # only the internal tokenisation of a match expression differs: a recorded finding for grammars whose terminals
            # contain '<' (the XML-like grammar); anywhere else it is unexplained
            cls = "same-text" if gname == "xml" else "same-text-unexplained"
        res.append(dict(name="reparse-equal", verdict="violated", key="reparse-equal/%s" % cls,
                        solver_s=0.0, what="parse_isla(unparse_isla(F)) != F: F=%s ; F2=%s" % (str(F)[:200], str(F2)[:200])))
    try:
        U2 = L.unparse_isla(F2)
        if U2 == U:
            res.append(dict(name="unparse-stable", verdict="discharged", solver_s=0.0))
        else:
            res.append(dict(name="unparse-stable", verdict="violated", key="unparse-stable/%s" % classify_unparse_failure(F, U),
                            solver_s=0.0, what="unparse(parse(unparse(F))) differs: %r vs %r" % (U[:200], U2[:200])))
    except Exception as e:
        res.append(dict(name="unparse-stable", verdict="violated", key="unparse-stable/" + _exc_key(e), solver_s=0.0,
                        what="second unparse raised %s" % e))
    guard = None
    # (literals outside Z3's character range make Z3's own verdicts meaningless: no guard there)
    if isinstance(F, (L.ForallFormula, L.ExistsFormula)) and "non-ascii-literal" not in classify_unparse_failure(F, U):
        try:
            W = type(F)(F.bound_variable, F.in_variable, L.NegatedFormula(F.inner_formula), F.bind_expression)
            guard = fol.equivalent(enc.enc(F2), enc.enc(W), False, 5000)[0]
        except fol.Unsupported:
            guard = None
    return dict(job=job, desc=desc, results=res, guard=guard, unparsed=U)


def classify_unparse_failure(F: L.Formula, U: str = "") -> str:
    """Failure class used as known-finding key: which construct of F the unparser mishandles."""
    kinds = set()
    import re as _re
    if _re.search(r"\(str\.< ", U):
        kinds.add("smt-op-not-in-grammar")

    class V(L.FormulaVisitor):
        def visit_smt_formula(self, f):
            def walk(e, top=True):
                if z3.is_not(e) and not top:
                    kinds.add("smt-not-nested")
                if z3.is_not(e) and top and (z3.is_and(e.children()[0]) or z3.is_or(e.children()[0])):
                    kinds.add("smt-not-nested")
                if z3.is_string_value(e) and ("\\u{" in e.sexpr() or any(ord(c) > 126 for c in e.as_string())):
                    kinds.add("non-ascii-literal")
                if z3.is_quantifier(e):
                    kinds.add("smt-quantifier")
                    return
                for c in e.children():
                    walk(c, False)
            walk(f.formula)

        def visit_forall_formula(self, f):
            self._q(f)

        def visit_exists_formula(self, f):
            self._q(f)

        def _q(self, f):
            if f.bound_variable.name == "start" or any(
                    isinstance(v, L.Constant) and v.name == f.bound_variable.name for v in L.VariablesCollector.collect(F)):
                kinds.add("variable-named-like-constant")
            if f.bind_expression is not None:
                for e in f.bind_expression.bound_elements:
                    for x in (e if isinstance(e, list) else [e]):
                        if isinstance(x, L.DummyVariable) and not vlib.is_nonterminal(x.n_type):
                            if any(ch in x.n_type for ch in '"\\\n\t\r{}[]'):
                                kinds.add("mexpr-special-char")
    try:
        F.accept(V())
    except Exception:
        pass
    return "+".join(sorted(kinds)) or "other"


# --------------------------------------------------------------------------
# C08: (sugared, hand-expanded core) pairs, generated from paired templates that follow the
# "Simplified Syntax" section of islaspec.rst rule by rule.

ROW_GRAMMAR = {
    "<start>": ["<row>"],
    "<row>": [",".join(["<cell>"] * 12), "<cell>"],
    "<cell>": ["x", "y"],
}
GRAMMARS["row"] = ROW_GRAMMAR
# two expansion alternatives whose children at the same position have different labels
ALT_GRAMMAR = {"<start>": ["<a>"], "<a>": ["<b><c>", "<c><c>"], "<b>": ["<d>"], "<c>": ["<f><e>"], "<f>": ["<d>"], "<d>": ["x", "y"], "<e>": ["1", "2"]}
GRAMMARS["alt"] = ALT_GRAMMAR


def c08_pairs(tier: str) -> List[Dict[str, str]]:
    P: List[Dict[str, str]] = []

    def add(kind, sugar, core, g="lang"):
        P.append(dict(kind=kind, grammar=g, sugar=sugar, core=core))

    # --- omitted `in start`
    for q in ("forall", "exists"):
        add("in-start", '%s <assgn> a: (= a "a := 1")' % q, '%s <assgn> a in start: (= a "a := 1")' % q)
        add("in-start", '%s <assgn> a="{<var> l} := <rhs>": (= l "a")' % q, '%s <assgn> a="{<var> l} := <rhs>" in start: (= l "a")' % q)
        add("in-start", '%s <assgn> a: exists <var> v in a: (= v "a")' % q, '%s <assgn> a in start: exists <var> v in a: (= v "a")' % q)
    # --- omitted bound variable names
    add("names", 'forall <assgn>: exists <var> in <assgn>: <var> = "a"', 'forall <assgn> assgn in start: exists <var> var in assgn: (= var "a")')
    add("names", 'exists <assgn>: <assgn> = "a := b"', 'exists <assgn> assgn in start: (= assgn "a := b")')
    add("names", 'exists <assgn> in start: forall <var> in <assgn>: <var> = "a"', 'exists <assgn> assgn in start: forall <var> var in assgn: (= var "a")')
    add("names", 'forall <stmt>: exists <assgn> in <stmt>: exists <digit> in <assgn>: <digit> = "1"',
        'forall <stmt> s in start: exists <assgn> a in s: exists <digit> d in a: (= d "1")')
    # --- free nonterminals: closure around the whole formula (documented rule)
    A = {"v": ['(= <var> "a")', '(= <var> "b")', '(str.prefixof "a" <var>)'], "d": ['(= <digit> "1")', '(< (str.to.int <digit>) 5)'],
         "r": ['(= <rhs> "1")']}
    bodies = [
        ("single", "{v0}"), ("not", "not {v0}"),
        ("or-same", "{v0} or {v1}"), ("and-same", "{v0} and {v1}"),
        ("or-independent", "{v0} or {d0}"), ("and-independent", "{v0} and {d0}"),
        ("or-mixed3", "{v0} or {v1} or {d0}"), ("or-mixed3b", "{d0} or {v0} or {v1}"), ("or-mixed4", "{v0} or {d0} or {v1} or {d1}"),
        ("and-mixed3", "{v0} and {v1} and {d0}"), ("implies-independent", "{v0} implies {d0}"), ("implies-same", "{v0} implies {v1}"),
        ("or-of-and", "({v0} and {d0}) or {v1}"), ("and-of-or", "({v0} or {d0}) and {v1}"), ("not-or", "not ({v0} or {d0})"),
        ("three-types", "{v0} or {d0} or {r0}"), ("xor-independent", "{v0} xor {d0}"), ("iff-same", "{v0} iff {v2}"),
    ]
    for name, pat in bodies:
        fill = {k + str(i): xs[i % len(xs)] for k, xs in A.items() for i in range(3)}
        sugar = pat.format(**fill)
        body = sugar.replace("<var>", "var").replace("<digit>", "digit").replace("<rhs>", "rhs")
        prefix = ""
        for nt, nm in (("<var>", "var"), ("<digit>", "digit"), ("<rhs>", "rhs")):
            if nt in sugar:
                prefix += "forall %s %s in start: " % (nt, nm)
        add("free-nonterminal/" + name, sugar, prefix + "(" + body + ")")
    # free nonterminal below an explicit quantifier
    add("free-nonterminal/under-exists", 'exists <assgn> decl: (before(decl, <assgn>) and (= decl "a := 1"))',
        'forall <assgn> assgn in start: exists <assgn> decl in start: (before(decl, assgn) and (= decl "a := 1"))')
    add("free-nonterminal/start", '<start> = "a := 1"', 'forall <start> s in start: (= s "a := 1")')
    add("free-nonterminal/predicate-arg", 'count(<stmt>, "<assgn>", "2")', 'forall <stmt> s in start: count(s, "<assgn>", "2")')
    # --- XPath: child axis, chains, descendant axis
    add("xpath/child", '<assgn>.<var> = "a"', 'forall <assgn> a="{<var> v} := <rhs>" in start: (= v "a")')
    add("xpath/child2", '<assgn>.<rhs>.<var> = "a"', 'forall <assgn> a="<var> := {<var> v}" in start: (= v "a")')
    add("xpath/child-alternatives", '<stmt>.<assgn> = "a := 1"',
        '(forall <stmt> s="{<assgn> a} ; <stmt>" in start: (= a "a := 1")) and (forall <stmt> s="{<assgn> a}" in start: (= a "a := 1"))')
    add("xpath/two-paths", '<assgn>.<rhs>.<var> = <assgn>.<var>', 'forall <assgn> a="{<var> l} := {<var> r}" in start: (= r l)')
    add("xpath/bound-var", 'forall <assgn> a: a.<rhs>.<digit> = "1"', 'forall <assgn> a="<var> := {<digit> d}" in start: (= d "1")')
    add("xpath/bound-var-exists", 'exists <assgn> a: a.<rhs>.<digit> = "1"', 'exists <assgn> a="<var> := {<digit> d}" in start: (= d "1")')
    add("xpath/descendant", '<assgn>..<var> = "a"', 'forall <assgn> a in start: forall <var> v in a: (= v "a")')
    add("xpath/descendant2", '<stmt>.<assgn>..<digit> = "1"',
        '(forall <stmt> s="{<assgn> a} ; <stmt>" in start: forall <digit> d in a: (= d "1")) and (forall <stmt> s="{<assgn> a}" in start: forall <digit> d in a: (= d "1"))')
    add("xpath/descendant-exists", 'exists <assgn> a: a..<digit> = "1"', 'exists <assgn> a in start: exists <digit> d in a: (= d "1")' if False else
        'exists <assgn> a in start: forall <digit> d in a: (= d "1")')
    add("xpath/descendant-forall-bound", 'forall <assgn> a: a..<digit> = "1"', 'forall <assgn> a in start: forall <digit> d in a: (= d "1")')
    add("xpath/def-use", 'exists <assgn> decl: (before(decl, <assgn>) and <assgn>.<rhs>.<var> = decl.<var>)',
        'forall <assgn> assgn="<var> := {<var> rhs}" in start: exists <assgn> decl="{<var> lhs} := <rhs>" in start: (before(decl, assgn) and (= rhs lhs))')
    # chains of three segments followed by the descendant axis (the intermediate variable is typed after the LAST element)
    c3 = ('(forall <stmt> s="<var> := {<rhs> r} ; <stmt>" in start: forall <var> v in r: (= v "a")) and '
          '(forall <stmt> s="<var> := {<rhs> r}" in start: forall <var> v in r: (= v "a"))')
    add("xpath/chain3-descendant", '<stmt>.<assgn>.<rhs>..<var> = "a"', c3)
    add("xpath/chain3-descendant-bound", 'forall <stmt> s: s.<assgn>.<rhs>..<var> = "a"', c3)
    add("xpath/chain3", '<stmt>.<assgn>.<rhs>.<digit> = "1"',
        '(forall <stmt> s="<var> := {<digit> d} ; <stmt>" in start: (= d "1")) and (forall <stmt> s="<var> := {<digit> d}" in start: (= d "1"))')
    # interplay of fresh names: XPath variables, free nonterminals, unnamed quantifiers, const declarations
    add("names/xpath-var-vs-free-nonterminal", 'exists <assgn> a: a.<var> = <var>',
        'forall <var> v in start: exists <assgn> a="{<var> l} := <rhs>" in start: (= l v)')
    add("names/const-declaration", 'const s: <start>; forall <var>: <var> = "a"', 'forall <var> v in start: (= v "a")')
    add("names/free-nonterminal-before-unnamed-quantifier", '<var> = "a" and (exists <var>: <var> = "a")',
        'forall <var> v in start: ((= v "a") and exists <var> w in start: (= w "a"))')
    add("names/free-nonterminal-after-unnamed-quantifier", '(exists <var>: <var> = "a") and <var> = "a"',
        'forall <var> v in start: ((exists <var> w in start: (= w "a")) and (= v "a"))')
    add("names/sibling-unnamed-quantifiers-xpath", '(exists <assgn>: <assgn>.<var> = "a") and (exists <assgn>: <assgn>.<var> = "b")',
        '(exists <assgn> x="{<var> l} := <rhs>" in start: (= l "a")) and (exists <assgn> y="{<var> m} := <rhs>" in start: (= m "b"))')
    add("names/xpath-then-free-nonterminal", '<assgn>.<rhs>.<var> = "a" and <var> = "a"',
        'forall <var> v in start: ((forall <assgn> x="<var> := {<var> r}" in start: (= r "a")) and (= v "a"))')
    add("names/free-nonterminal-then-xpath", '<var> = "a" and <assgn>.<rhs>.<var> = "a"',
        'forall <var> v in start: ((= v "a") and (forall <assgn> x="<var> := {<var> r}" in start: (= r "a")))')
    # match-expression variables that carry the default name of a free nonterminal (var for <var>), on named and unnamed quantifiers
    core_ex = 'forall <var> v in start: exists <assgn> a="{<var> l} := <rhs>" in start: (= l v)'
    core_fa = 'forall <var> v in start: forall <assgn> a="{<var> l} := <rhs>" in start: (= l v)'
    add("names/mexpr-var-default-name/unnamed-exists", 'exists <assgn>="{<var> var} := <rhs>": var = <var>', core_ex)
    add("names/mexpr-var-default-name/named-exists", 'exists <assgn> a="{<var> var} := <rhs>": var = <var>', core_ex)
    add("names/mexpr-var-default-name/unnamed-forall", 'forall <assgn>="{<var> var} := <rhs>": var = <var>', core_fa)
    add("names/mexpr-var-default-name/named-forall", 'forall <assgn> a="{<var> var} := <rhs>": var = <var>', core_fa)
    add("names/quantifier-var-default-name", 'exists <assgn> var: var.<rhs>.<digit> = <digit>',
        'forall <digit> e in start: exists <assgn> a="<var> := {<digit> d}" in start: (= d e)')
    # several XPath expressions on ONE bound variable are merged into one match expression
    add("xpath/two-paths-one-variable/different-alternatives", 'forall <a> v: (v.<b>.<d> = "x" and v.<c>.<e> = "1")',
        'forall <a> v="{<d> d}<f>{<e> e}" in start: ((= d "x") and (= e "1"))', g="alt")
    add("xpath/two-paths-one-variable/same-alternative", 'forall <a> v: (v.<c>.<f> = "x" and v.<c>.<e> = "1")',
        '(forall <a> v="<b>{<f> f}{<e> e}" in start: ((= f "x") and (= e "1"))) and (forall <a> v="{<f> f}{<e> e}<c>" in start: ((= f "x") and (= e "1")))', g="alt")
    add("xpath/two-paths-one-variable/lang", 'forall <assgn> a: (a.<var> = "a" and a.<rhs>.<digit> = "1")',
        'forall <assgn> a="{<var> v} := {<digit> d}" in start: ((= v "a") and (= d "1"))')
    add("xpath/two-paths-one-variable/exists", 'exists <assgn> a: (a.<var> = "a" and a.<rhs>.<var> = "b")',
        'exists <assgn> a="{<var> v} := {<var> w}" in start: ((= v "a") and (= w "b"))')
    # nested unnamed quantifiers over the same nonterminal (both get the default name; the inner one has to be renamed)
    add("names/nested-unnamed-same-type/exists-forall", 'exists <var>: (<var> = "a" and forall <var>: not <var> = "c")',
        'exists <var> v in start: ((= v "a") and forall <var> w in start: (not (= w "c")))')
    add("names/nested-unnamed-same-type/forall-exists", 'forall <var>: (<var> = "a" or exists <var>: <var> = "c")',
        'forall <var> v in start: ((= v "a") or exists <var> w in start: (= w "c"))')
    add("names/nested-unnamed-same-type/exists-exists", 'exists <var>: (<var> = "a" and exists <var>: <var> = "b")',
        'exists <var> v in start: ((= v "a") and exists <var> w in start: (= w "b"))')
    # scoping: sibling quantifiers may reuse a variable name, also for a different nonterminal
    add("scoping/same-name-different-type/or", '(exists <digit> e in start: (= e "a")) or (exists <var> e in start: (= e "a"))',
        '(exists <digit> d in start: (= d "a")) or (exists <var> v in start: (= v "a"))')
    add("scoping/same-name-different-type/and", '(forall <digit> e in start: (= e "1")) and (forall <var> e in start: (= e "a"))',
        '(forall <digit> d in start: (= d "1")) and (forall <var> v in start: (= v "a"))')
    add("scoping/same-name-same-type", '(exists <var> e in start: (= e "a")) and (exists <var> e in start: (= e "b"))',
        '(exists <var> v in start: (= v "a")) and (exists <var> w in start: (= w "b"))')
    add("xpath/exists-child-alternatives-descendant", 'exists <stmt> s: s.<assgn>..<var> = "a"',
        '(exists <stmt> s="{<assgn> x}" in start: forall <var> v in x: (= v "a")) or '
        '(exists <stmt> t="{<assgn> y} ; <stmt>" in start: forall <var> w in y: (= w "a"))')
    # --- XPath position [i] (grammar with twelve <cell> children)
    for k in range(1, 13):
        mexpr = ",".join("{<cell> c}" if i == k else "<cell>" for i in range(1, 13))
        core = 'forall <row> r="%s" in start: (= c "x")' % mexpr
        if k == 1:   # the single-cell alternative also has a first <cell>
            core = '(%s) and (forall <row> r="{<cell> c}" in start: (= c "x"))' % core
        add("xpath/index", '<row>.<cell>[%d] = "x"' % k, core, g="row")
    add("xpath/index-default", '<row>.<cell> = "x"',
        '(forall <row> r="%s" in start: (= c "x")) and (forall <row> r="{<cell> c}" in start: (= c "x"))' % ",".join(["{<cell> c}"] + ["<cell>"] * 11), g="row")
    add("xpath/index-xml", '<tree>.<id>[2] = "a"', 'forall <tree> t="<<id>><inner></{<id> c}>" in start: (= c "a")', g="xml")
    add("xpath/index-xml-1", '<tree>.<id>[1] = "a"',
        '(forall <tree> t="<{<id> o}><inner></<id>>" in start: (= o "a")) and (forall <tree> t="<{<id> o}/>" in start: (= o "a"))', g="xml")
    # --- generalized SMT syntax: prefix, infix, precedence, negative literals
    smt = [
        ('str.len(v) > 1', '(> (str.len v) 1)'), ('str.len(v) >= 1', '(>= (str.len v) 1)'), ('v = "a"', '(= v "a")'),
        ('str.to.int(d) + 1 = 5', '(= (+ (str.to.int d) 1) 5)'), ('17 + str.to.int(d) = 20', '(= (+ 17 (str.to.int d)) 20)'),
        ('str.to.int(d) * 2 + 1 = 5', '(= (+ (* (str.to.int d) 2) 1) 5)'), ('1 + str.to.int(d) * 2 = 5', '(= (+ 1 (* (str.to.int d) 2)) 5)'),
        ('str.to.int(d) - 1 - 1 = 0', '(= (- (- (str.to.int d) 1) 1) 0)'), ('str.to.int(d) mod 2 = 1', '(= (mod (str.to.int d) 2) 1)'),
        ('str.to.int(d) div 2 = 1', '(= (div (str.to.int d) 2) 1)'), ('str.to.int(d) > -1', '(> (str.to.int d) (- 1))'),
        ('str.to.int(d) + -1 = 0', '(= (+ (str.to.int d) (- 1)) 0)'), ('str.prefixof("a", v)', '(str.prefixof "a" v)'),
        ('str.in_re(v, re.+(re.range("a", "c")))', '(str.in_re v (re.+ (re.range "a" "c")))'),
        ('v str.++ "x" = "ax"', '(= (str.++ v "x") "ax")'), ('str.len(v str.++ d) = 2', '(= (str.len (str.++ v d)) 2)'),
        ('(str.to.int(d) < 5 and str.len(v) = 1)', '((< (str.to.int d) 5) and (= (str.len v) 1))'),
        ('str.substr(v, 0, 1) = "a"', '(= (str.substr v 0 1) "a")'), ('(= v "a")', '(= v "a")'),
    ]
    for s_, c_ in smt:
        add("smt-syntax", "forall <var> v in start: exists <digit> d in start: %s" % s_,
            "forall <var> v in start: exists <digit> d in start: %s" % c_)
    # --- implies / iff / xor by their definitions
    X, Y = '(= v "a")', '(= d "1")'
    pre = "forall <var> v in start: forall <digit> d in start: "
    add("connective/implies", pre + "(%s implies %s)" % (X, Y), pre + "(not %s or %s)" % (X, Y))
    add("connective/iff", pre + "(%s iff %s)" % (X, Y), pre + "((%s and %s) or (not %s and not %s))" % (X, Y, X, Y))
    add("connective/xor", pre + "(%s xor %s)" % (X, Y), pre + "((%s and not %s) or (not %s and %s))" % (X, Y, X, Y))
    add("connective/implies-chain", pre + "(%s implies %s implies %s)" % (X, Y, X), pre + "(not %s or (not %s or %s))" % (X, Y, X) if False else
        pre + "(not (not %s or %s) or %s)" % (X, Y, X))
    add("connective/precedence", pre + "(%s or %s and not %s)" % (X, Y, X), pre + "(%s or (%s and (not %s)))" % (X, Y, X))
    return P


def nested_rebinding(f: L.Formula, bound=()) -> Optional[str]:
    """name of a variable that is bound by a quantifier (or its match expression) inside the scope of another binder of the
    same variable, or None"""
    if isinstance(f, (L.QuantifiedFormula, L.NumericQuantifiedFormula)):
        here = [f.bound_variable]
        if isinstance(f, L.QuantifiedFormula) and f.bind_expression is not None:
            here += [v for v in f.bind_expression.bound_variables()]
        for v in here:
            if any(v.name == b for b in bound):
                return v.name
        return nested_rebinding(f.inner_formula, bound + tuple(v.name for v in here))
    if isinstance(f, (L.NegatedFormula, L.ConjunctiveFormula, L.DisjunctiveFormula)):
        for a in f.args:
            r = nested_rebinding(a, bound)
            if r:
                return r
    return None


def c08_worker(job: Dict[str, str]) -> Dict[str, Any]:
    import warnings
    warnings.filterwarnings("ignore")
    gname = job["grammar"]
    gram = GRAMMARS[gname]
    desc = "[%s] %s  ==  %s" % (gname, job["sugar"], job["core"])
    res: List[Dict[str, Any]] = []
    try:
        C = parse(job["core"], gram)
    except BaseException as e:
        return dict(job=job, desc=desc, build_error="core text does not parse: %s: %s" % (type(e).__name__, str(e)[:200]), results=[])
    try:
        S = parse(job["sugar"], gram)
    except BaseException as e:
        res.append(dict(name="sugar-accepted", verdict="violated", key="%s/rejected-%s" % (job["kind"], type(e).__name__), solver_s=0.0,
                        what="parse_isla rejects the documented simplified form %r: %s: %s" % (job["sugar"], type(e).__name__, str(e)[:160])))
        return dict(job=job, desc=desc, results=res)
    shadowed = nested_rebinding(S)
    if shadowed:
        # the first-order encoding scopes binders properly, ISLa's evaluator does not (the outer assignment wins): a translation
        # that binds one variable twice on a path is ill-formed core ISLa and is not handed to the equivalence check
        res.append(dict(name="sugar-well-formed", verdict="violated", key="%s/nested-rebinding" % job["kind"], solver_s=0.0,
                        what="the translation of %r binds %s again inside its own scope: %s" % (job["sugar"], shadowed, str(S)[:300])))
        return dict(job=job, desc=desc, results=res)
    enc = fol.Encoder()
    r = check_equiv(enc, C, S, False, "sugar-equals-core", gname=gname)
    if r["verdict"] == "violated":
        r["key"] = "%s/inequivalent" % job["kind"]
        if job["kind"].startswith("free-nonterminal/"):
            # Known class: the closure is pushed into conjunctions over independent nonterminals, which only differs from
            # the documented outermost closure when one of the closed-over nonterminals does not occur in the tree.
            # Prefer a witness in which every free nonterminal occurs; only without one is it that class.
            nts = [nt for nt in ("<var>", "<digit>", "<rhs>", "<assgn>", "<stmt>") if nt in job["sugar"]]

            def all_occur(t):
                labels = {n.value for _, n in t.paths()}
                return all(nt in labels for nt in nts)
            w2 = find_witness(C, S, False, gname=gname, tree_filter=all_occur)
            if w2 is not None:
                r["witness"] = w2
            else:
                r["key"] = "free-nonterminal/closure-split-empty-domain"
        r["what"] = "simplified form and documented core form evaluate differently: witness %s; parsed sugar: %s" % (r["witness"], str(S)[:300])
    res.append(r)
    guard = None
    if isinstance(C, (L.ForallFormula, L.ExistsFormula)):
        try:
            W = type(C)(C.bound_variable, C.in_variable, L.NegatedFormula(C.inner_formula), C.bind_expression)
            guard = fol.equivalent(enc.enc(S), enc.enc(W), False, 5000)[0]
        except fol.Unsupported:
            guard = None
    return dict(job=job, desc=desc, results=res, guard=guard)
