"""FOL: ISLa formula ASTs -> first-order formulas over an arbitrary tree structure (E-TV).

Sorts:  Node (uninterpreted), Num (uninterpreted), String, Int.
        strof : Node -> String            string of the subtree
        numstr: Num  -> String            numeral bound by a numeric quantifier
        Lab_<T> : Node -> Bool            node is labelled T
        In : Node x Node -> Bool          node lies in the tree rooted at the other node
        M_<T|skeleton> : Node -> Bool     match expression `skeleton` matches the node
        f_<T|skeleton|i> : Node -> Node   i-th element of the match expression
        P_<name|sorts> : ... -> Bool      structural / semantic predicates (uninterpreted)
SMT atoms are the real z3.BoolRef of the SMTFormula with each variable replaced by strof(x) /
numstr(n): they stay INTERPRETED, so rewrites of the SMT part (z3_push_in_negations, simplify)
are decided semantically.

No tree axioms are asserted: every concrete (tree, grammar) is one interpretation, hence
`unsat(enc(F) xor enc(G))` implies that F and G have the same verdict on every tree.  A `sat`
answer is only a candidate; callers look for a concrete witness tree with the real evaluate().

NOTE: isla.language monkey-patches z3.ExprRef.__eq__ (structural, returns a Python bool), so this
module never uses `==` on z3 terms: z3.Xor / z3_eq only.
"""
from __future__ import annotations

import itertools
from typing import Any, Dict, List, Optional, Tuple

import z3

from isla import language as L
from isla.z3_helpers import z3_subst

NODE = z3.DeclareSort("Node")
NUM = z3.DeclareSort("Num")
STROF = z3.Function("strof", NODE, z3.StringSort())
NUMSTR = z3.Function("numstr", NUM, z3.StringSort())
IN = z3.Function("In", NODE, NODE, z3.BoolSort())


class Unsupported(Exception):
    pass


def _ident(s: str) -> str:
    out = []
    for ch in s:
        out.append(ch if ch.isalnum() else "_%x_" % ord(ch))
    return "".join(out)


def mexpr_skeleton(be: L.BindExpression) -> Tuple[str, List[Tuple[int, L.BoundVariable]]]:
    """Name-free skeleton of a match expression and the positions of its (non-dummy) bound variables."""
    bound: List[Tuple[int, L.BoundVariable]] = []
    text: List[str] = []

    def elem(e) -> None:
        if isinstance(e, list):
            text.append("[")
            for x in e:
                elem(x)
            text.append("]")
            return
        if isinstance(e, L.DummyVariable):
            text.append(e.n_type)
            return
        if isinstance(e, L.BoundVariable):
            # position = character offset in the skeleton: independent of how terminals are tokenised
            bound.append((len("".join(text)), e))
            text.append(e.n_type)
            return
        raise Unsupported("bind element %r" % (e,))

    for e in be.bound_elements:
        elem(e)
    parts = text
    # adjacent terminal dummies are concatenated, so "a" "b" and "ab" give the same skeleton
    return "".join(parts), bound


class Encoder:
    def __init__(self):
        self.consts: Dict[Tuple[str, str], z3.ExprRef] = {}
        self.funs: Dict[str, z3.FuncDeclRef] = {}
        self.counter = itertools.count()
        self.symbols_used: List[str] = []

    def fun(self, name: str, *sorts) -> z3.FuncDeclRef:
        f = self.funs.get(name)
        if f is None:
            f = z3.Function(name, *sorts)
            self.funs[name] = f
        return f

    def const_for(self, var: L.Variable) -> z3.ExprRef:
        key = (var.name, var.n_type)
        c = self.consts.get(key)
        if c is None:
            sort = NUM if var.is_numeric() else NODE
            c = z3.Const("c_%s_%s" % (_ident(var.name), _ident(var.n_type)), sort)
            self.consts[key] = c
        return c

    def term(self, var: L.Variable, env: Dict[Any, z3.ExprRef]) -> z3.ExprRef:
        t = env.get(var)
        if t is not None:
            return t
        return self.const_for(var)   # free constant (or an unbound variable of an ill-formed formula)

    def str_of(self, var: L.Variable, env) -> z3.ExprRef:
        t = self.term(var, env)
        if var.is_numeric():
            return NUMSTR(t)
        return STROF(t)

    # ------------------------------------------------------------------
    def enc(self, f: L.Formula, env: Optional[Dict[Any, z3.ExprRef]] = None) -> z3.BoolRef:
        # bound variables are named by binder depth (not by a global counter): alpha-equivalent
        # subformulas become the SAME z3 AST, so the solver only has to reason about what a rewrite
        # really changed.  Sound: lookup goes through `env`, never through names, and a binder at
        # depth d has a name different from every enclosing binder.
        env = env or {}
        depth = len([1 for k in env if isinstance(k, tuple) and k[0] == "depth"])
        if isinstance(f, L.SMTFormula):
            if f.substitutions or f.instantiated_variables:
                raise Unsupported("SMT formula with tree substitutions")
            m = {}
            for v in f.free_variables():
                m[v.to_smt()] = self.str_of(v, env)
            return z3_subst(f.formula, m) if m else f.formula
        if isinstance(f, L.NegatedFormula):
            return z3.Not(self.enc(f.args[0], env))
        if isinstance(f, L.ConjunctiveFormula):
            return z3.And(*[self.enc(a, env) for a in f.args])
        if isinstance(f, L.DisjunctiveFormula):
            return z3.Or(*[self.enc(a, env) for a in f.args])
        if isinstance(f, (L.StructuralPredicateFormula, L.SemanticPredicateFormula)):
            args, kinds = [], []
            for a in f.args:
                if isinstance(a, L.Variable):
                    t = self.term(a, env)
                    args.append(t)
                    kinds.append("n" if a.is_numeric() else "t")
                elif isinstance(a, bool):
                    raise Unsupported("bool predicate argument")
                elif isinstance(a, int):
                    args.append(z3.IntVal(a))
                    kinds.append("i")
                elif isinstance(a, str):
                    args.append(z3.StringVal(a))
                    kinds.append("s")
                else:
                    raise Unsupported("tree predicate argument")
            sorts = [{"n": NUM, "t": NODE, "i": z3.IntSort(), "s": z3.StringSort()}[k] for k in kinds]
            kind = "S" if isinstance(f, L.StructuralPredicateFormula) else "X"
            p = self.fun("P%s_%s_%s" % (kind, _ident(f.predicate.name), "".join(kinds)), *sorts, z3.BoolSort())
            return p(*args)
        if isinstance(f, L.NumericQuantifiedFormula):
            n = z3.Const("n%d" % depth, NUM)
            env2 = dict(env)
            env2[("depth", depth)] = n
            env2[f.bound_variable] = n
            body = self.enc(f.inner_formula, env2)
            if isinstance(f, L.ForallIntFormula):
                return z3.ForAll([n], body)
            return z3.Exists([n], body)
        if isinstance(f, L.QuantifiedFormula):
            if not isinstance(f.in_variable, L.Variable):
                raise Unsupported("quantifier over a concrete tree")
            x = z3.Const("x%d" % depth, NODE)
            T = f.bound_variable.n_type
            in_t = self.term(f.in_variable, env)
            guard = [self.fun("Lab_" + _ident(T), NODE, z3.BoolSort())(x), IN(x, in_t)]
            env2 = dict(env)
            env2[("depth", depth)] = x
            env2[f.bound_variable] = x
            if f.bind_expression is not None:
                skel, bound = mexpr_skeleton(f.bind_expression)
                key = _ident(T) + "__" + _ident(skel)
                guard.append(self.fun("M_" + key, NODE, z3.BoolSort())(x))
                for i, bv in bound:
                    env2[bv] = self.fun("f_%s__%d" % (key, i), NODE, NODE)(x)
            body = self.enc(f.inner_formula, env2)
            if isinstance(f, L.ForallFormula):
                return z3.ForAll([x], z3.Implies(z3.And(*guard), body))
            return z3.Exists([x], z3.And(*(guard + [body])))
        raise Unsupported("formula type %s" % type(f).__name__)


# --------------------------------------------------------------------------
# String abstraction (first, cheap layer).  Every String/RegLan-sorted operator becomes an
# uninterpreted function over the uninterpreted sorts StrU/ReU; Bool/Int structure, arithmetic and
# equality stay interpreted; distinct string literals are distinct constants.  Every real
# interpretation is an interpretation of the abstraction, so `unsat` on the abstraction implies
# `unsat` on the interpreted formula; anything else falls through to the interpreted query.

STRU = z3.DeclareSort("StrU")
REU = z3.DeclareSort("ReU")


class StringAbstraction:
    def __init__(self):
        self.funs: Dict[str, z3.FuncDeclRef] = {}
        self.lits: Dict[str, z3.ExprRef] = {}
        self.cache: Dict[int, z3.ExprRef] = {}

    def sort(self, s: z3.SortRef) -> z3.SortRef:
        k = s.kind()
        if k == z3.Z3_SEQ_SORT:
            return STRU
        if k == z3.Z3_RE_SORT:
            return REU
        return s

    def lit(self, v: str) -> z3.ExprRef:
        c = self.lits.get(v)
        if c is None:
            c = z3.Const("lit_" + "".join("%02x" % b for b in v.encode("utf-8")), STRU)
            self.lits[v] = c
        return c

    def axioms(self) -> List[z3.BoolRef]:
        ls = list(self.lits.values())
        return [z3.Distinct(*ls)] if len(ls) > 1 else []

    def tr(self, e: z3.ExprRef) -> z3.ExprRef:
        if z3.is_quantifier(e):
            n = e.num_vars()
            vs = [z3.Const("q%s_%s" % (e.var_name(i), i), self.sort(e.var_sort(i))) for i in range(n)]
            # instantiate de Bruijn indices with fresh constants of the ORIGINAL sorts, translate, re-bind
            orig = [z3.Const("q%s_%s" % (e.var_name(i), i), e.var_sort(i)) for i in range(n)]
            body = z3.substitute_vars(e.body(), *reversed(orig))
            tb = self.tr(body)
            return z3.ForAll(vs, tb) if e.is_forall() else z3.Exists(vs, tb)
        if z3.is_string_value(e):
            return self.lit(e.as_string())
        if z3.is_const(e) and e.decl().kind() == z3.Z3_OP_UNINTERPRETED:
            return z3.Const(e.decl().name(), self.sort(e.sort()))
        if not z3.is_app(e):
            raise Unsupported("non-app z3 term")
        args = [self.tr(a) for a in e.children()]
        d = e.decl()
        touches = any(a.sort().kind() in (z3.Z3_SEQ_SORT, z3.Z3_RE_SORT) for a in e.children()) or \
            e.sort().kind() in (z3.Z3_SEQ_SORT, z3.Z3_RE_SORT)
        if not touches and d.kind() != z3.Z3_OP_UNINTERPRETED:
            if not args:
                return e
            k = d.kind()
            nary = {z3.Z3_OP_AND: z3.And, z3.Z3_OP_OR: z3.Or, z3.Z3_OP_ADD: lambda *xs: z3.Sum(*xs),
                    z3.Z3_OP_MUL: lambda *xs: z3.Product(*xs), z3.Z3_OP_DISTINCT: z3.Distinct}
            if k in nary:
                return nary[k](*args)
            if k == z3.Z3_OP_SUB and len(args) > 2:
                out = args[0]
                for x in args[1:]:
                    out = out - x
                return out
            try:
                return d(*args)
            except z3.Z3Exception as ex:
                raise Unsupported("cannot rebuild %s: %s" % (d.name(), ex))
        if d.kind() == z3.Z3_OP_EQ:
            return z3.Not(z3.Distinct(args[0], args[1]))
        if d.kind() == z3.Z3_OP_DISTINCT:
            return z3.Distinct(*args)
        if d.kind() == z3.Z3_OP_ITE:
            return z3.If(args[0], args[1], args[2])
        # parameters (re.loop bounds etc.) are part of the name
        params = "_".join(str(x) for x in d.params()) if d.kind() != z3.Z3_OP_UNINTERPRETED else ""
        name = "u_%s_%s_%d" % (_ident(d.name()), _ident(params), len(args))
        sig = [a.sort() for a in args] + [self.sort(e.sort())]
        key = name + "|" + "|".join(str(x) for x in sig)
        f = self.funs.get(key)
        if f is None:
            f = z3.Function(name + "_%d" % len(self.funs), *sig) if args else None
            self.funs[key] = f
        if not args:
            return z3.Const(name, self.sort(e.sort()))
        return f(*args)


def equivalent(a: z3.BoolRef, b: z3.BoolRef, negate_b: bool = False, timeout_ms: int = 5000) -> Tuple[str, float, str]:
    """(verdict, seconds, smt2 text).  verdict: 'unsat' (equivalent), 'sat' (candidate difference), 'unknown'.
    Layer 1: string-abstracted query (unsat there => unsat); layer 2: interpreted query."""
    import time
    t0 = time.time()
    goal = z3.Xor(a, z3.Not(b) if negate_b else b)
    try:
        sa = StringAbstraction()
        g1 = sa.tr(goal)
        s1 = z3.Solver()
        s1.set("timeout", min(timeout_ms, 800))
        s1.add(g1)
        for ax in sa.axioms():
            s1.add(ax)
        if str(s1.check()) == "unsat":
            return "unsat", time.time() - t0, s1.to_smt2()
    except Unsupported:
        pass
    s = z3.Solver()
    s.set("timeout", timeout_ms)
    s.add(goal)
    r = s.check()
    return str(r), time.time() - t0, s.to_smt2()
