"""C08 — simplified syntax means its documented core translation (translation validation)."""
from __future__ import annotations

import common
from c09 import record_tv


def main(tier, only):
    import tvlib
    run = common.Run("C08", tier, "translation_validation",
                     [common.src_range("src/isla/language.py", f) for f in
                      ["ISLaEmitter", "univ_close_over_var_push_in", "AddMexprTransformer", "add_mexpr_to_qfr_over_var", "parse_isla", "VariableManager"]])
    jobs = tvlib.c08_pairs(tier)
    outs = tvlib.run_pool(tvlib.c08_worker, jobs, common.NCPU)
    gs, gt, samples = record_tv(run, outs)
    if gt == 0 or gs < 0.6 * gt:
        run.harness_error("vacuity guard: seeded wrong variant refuted for only %d of %d programs" % (gs, gt))
    run.extra["vacuity_guard"] = "sugared formula vs. core formula with negated body refuted (sat) for %d of %d pairs" % (gs, gt)
    kinds = sorted({j["kind"].split("/")[0] for j in jobs})
    run.bounds = dict(pairs=len(jobs), kinds=kinds, grammars="assignment language, XML-like, 12-cell row grammar", trees="ALL (uninterpreted first-order structure)")
    run.engines = dict(z3="z3 4.11.2 in-process + z3 5.1.0 re-check", replay="real evaluate on concrete trees")
    run.trusted = ["the hand-expanded core forms in checks/tvlib.py:c08_pairs (written from islaspec.rst, 'Simplified Syntax', rule by rule)", "FOL encoder", "z3"]
    run.assumptions = ["see C09 (match expressions are keyed by their skeleton text)"]
    run.outside = ["sugar combinations outside the paired templates"]
    return run.finish(
        "For every (simplified, hand-expanded core) pair both texts are parsed by the real parse_isla and z3 proves the two formulas equivalent over "
        "ALL trees; a documented simplified form that is rejected is a violation; a sat answer needs a concrete witness tree.", samples=samples)


def replay(d):
    import tvlib
    rp = d["replay"]
    o = tvlib.c08_worker(rp["job"])
    bad = [r for r in o["results"] if r["verdict"] == "violated"]
    print("replay C08 %s -> %s" % (o["desc"][:200], "VIOLATION REPRODUCED: " + bad[0]["what"] if bad else "holds"))
    return 1 if bad else 0
