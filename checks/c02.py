"""C02 — solve() only returns solutions or signals exhaustion/timeout, then stays so (bounded configuration space + symbolic clock)."""
import os

import common
import xh
from c01 import keyfn, configs, HARNESS, NCONSTRAINTS


def main(tier, only):
    run = common.Run("C02", tier, "other", [common.src_range("src/isla/solver.py", "ISLaSolver.solve"),
                                             common.src_range("src/isla/solver.py", "ISLaSolver.extract_model_value_int_var") if False else
                                             common.src_range("src/isla/solver.py", "ISLaSolver.solve_smt_formulas_with_language_constraints")])
    cfgs, log, sets, nsol = configs(tier, "c02", "C02")
    # timeout obligations: one setting per constraint, clock increments enumerated by the solver
    for ci in range(NCONSTRAINTS):
        if tier == "quick" and ci % 2 == 1 and ci != 1:
            continue      # quick tier: every second constraint gets the clock-driven obligations
        cfgs.append(dict(tag="timeout.c%d" % ci, env={"VERIF_FIX": "0=%d,1=2,2=2,3=1,4=0,5=7,6=0,7=0" % ci, "VERIF_NSOL": nsol, "VERIF_CALL_LIMIT": "10",
                                                        "VERIF_MODE": "c02", "VERIF_IGNORED_LOG": log, "VERIF_CONFIGURED": "1"}, only=["timeout"], timeout=cfgs[0]["timeout"], timing_dependent=True))
        # no timeout configured, unsat support on: its internal 2 s budget must not surface as TimeoutError
        if tier == "quick" and ci in (2, 7, 8, 10):
            continue      # exceed the wall-clock guard with unsat support (thorough tier only)
        cfgs.append(dict(tag="unsat-support.c%d" % ci, env={"VERIF_FIX": "0=%d,1=2,2=2,3=1,4=0,5=7,6=0,7=1" % ci, "VERIF_NSOL": nsol, "VERIF_CALL_LIMIT": "10",
                                                              "VERIF_MODE": "c02", "VERIF_IGNORED_LOG": log, "VERIF_CONFIGURED": "0"}, only=["timeout"], timeout=cfgs[0]["timeout"], timing_dependent=True))
    res = xh.check_many("C02", HARNESS, cfgs, twin_timeout=200)
    xh.record(run, res, "", keyfn)
    ignored = open(log).read().splitlines() if os.path.exists(log) else []
    run.extra["configurations_abandoned_as_too_slow"] = ignored[:40]
    run.bounds = dict(constraints=NCONSTRAINTS, settings=sets, calls_per_configuration="%s + 2 (+4 with a timeout)" % nsol,
                      clock="timeout_seconds=3; isla.solver's time.time replaced by a stub advancing by 0 / 0.6 / 7 s per call according to every increment vector of length 1..2")
    run.engines = dict(crosshair="crosshair-tool 0.0.110 on z3 4.11.2")
    run.trusted = ["the clock stub"]
    run.assumptions = ["[decoder] (see C01)"]
    run.outside = ["other grammars/constraints/settings; clock behaviours outside the periodic increment vectors"]
    return run.finish(
        "For every configuration: every solve() call returns a tree or raises StopIteration/TimeoutError and nothing else; after the first StopIteration/TimeoutError every "
        "later call raises the same, also when the timeout strikes at any point chosen by the (solver-enumerated) clock increments.")


def replay(d):
    return xh.replay_file(d)
