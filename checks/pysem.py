"""PySem: Python expression ASTs -> z3 terms with *Python* semantics.

Used to encode the constructor lambdas inside isla.z3_helpers.evaluate_z3_* (pulled
from the current source with `ast`).  A translated value is a triple
(kind, term, exc): kind in {int, str, bool}; `exc` is a z3 Bool that is true iff
evaluating the Python expression raises.  Python int -> SMT Int, str -> SMT String.

Anything the translator does not know raises Unsupported -> the obligation is
reported inconclusive (never silently passed).
"""
from __future__ import annotations

import ast
from typing import Dict, List, Tuple

import z3

from isla.z3_helpers import z3_eq  # structural-eq patch makes `==` on z3 terms a Python bool


class Unsupported(Exception):
    pass


Val = Tuple[str, z3.ExprRef, z3.BoolRef]

FALSE = z3.BoolVal(False)


def _or(*xs):
    xs = [x for x in xs if not z3.is_false(x)]
    if not xs:
        return FALSE
    if len(xs) == 1:
        return xs[0]
    return z3.Or(*xs)


def py_mod(a, b):
    # Python floor modulo; b == 0 handled by the exception flag
    return z3.If(b > 0, a % b, -((-a) % (-b)))


def py_floordiv(a, b):
    # floor(a / b) for b != 0:  a = b*q + r with r having the sign of b
    return z3.If(b > 0, a / b, (-a) / (-b))


def trunc_div(a, b):
    """int(float(a)/float(b)) for |a|,|b| < 2**53 where float() is exact and the quotient's
    truncation equals integer truncation (stated bound)."""
    absq = z3.If(a >= 0, a, -a) / z3.If(b >= 0, b, -b)
    return z3.If((a >= 0) == (b > 0), absq, -absq)


def z3abs(a):
    return z3.If(a >= 0, a, -a)


FLOAT_EXACT_MAX_EXP = 11   # doubles modelled exactly for |v| < 2**(53+11) = 2**64


def int_of_float_of_int(v):
    """int(float(v)) for an integer v: IEEE-754 binary64 round-to-nearest-even, encoded exactly with
    integer arithmetic for |v| < 2**64 (stated bound; callers must exclude larger magnitudes).
    For 2**(52+k) <= |v| < 2**(53+k) the spacing of doubles is 2**k."""
    a = z3abs(v)
    r = a
    for k in range(FLOAT_EXACT_MAX_EXP, 0, -1):
        s_ = 2 ** k
        q, rem = a / s_, a % s_
        half = s_ // 2
        up = z3.Or(rem > half, z3.And(rem == half, q % 2 == 1))   # ties to even
        rounded = z3.If(up, (q + 1) * s_, q * s_)
        r = z3.If(a >= 2 ** (52 + k), rounded, r)
    return z3.If(v >= 0, r, -r)


class Translator:
    def __init__(self, args: List[Val], env: Dict[str, Val] | None = None, handled=()):
        self.args = args
        self.env = dict(env or {})
        self.assumptions: List[str] = []
        self.handled = set(handled)          # exception classes the callers catch and answer
        self.handled_conds: List[z3.BoolRef] = []   # conditions under which such an exception is raised
        self.domain: List[z3.BoolRef] = []          # stated bounds of the model (obligation restricted to them)

    def zde(self, cond):
        """ZeroDivisionError under `cond`: a raise, unless the callers handle it (then the region is
        excluded from the obligation: value unspecified on both sides)."""
        if "ZeroDivisionError" in self.handled or "ArithmeticError" in self.handled or "Exception" in self.handled:
            self.handled_conds.append(cond)
            return FALSE
        return cond

    # -- helpers -----------------------------------------------------------
    def lit(self, v) -> Val:
        if isinstance(v, bool):
            return ("bool", z3.BoolVal(v), FALSE)
        if isinstance(v, int):
            return ("int", z3.IntVal(v), FALSE)
        if isinstance(v, str):
            return ("str", z3.StringVal(v), FALSE)
        raise Unsupported("literal %r" % (v,))

    def tr(self, n: ast.AST) -> Val:
        m = getattr(self, "tr_" + type(n).__name__, None)
        if m is None:
            raise Unsupported(ast.dump(n)[:80])
        return m(n)

    def tr_Constant(self, n):
        return self.lit(n.value)

    def tr_Name(self, n):
        if n.id in self.env:
            return self.env[n.id]
        raise Unsupported("name " + n.id)

    def tr_Subscript(self, n):
        # args[i]
        if isinstance(n.value, ast.Name) and n.value.id == "args" and isinstance(n.slice, ast.Constant):
            i = n.slice.value
            if not (0 <= i < len(self.args)):
                raise Unsupported("args[%d] with %d args" % (i, len(self.args)))
            return self.args[i]
        k, s, e = self.tr(n.value)
        if k != "str":
            raise Unsupported("subscript of " + k)
        ln = z3.Length(s)
        if isinstance(n.slice, ast.Slice):
            if n.slice.step is not None:
                raise Unsupported("slice step")
            def bound(b, default):
                if b is None:
                    return default, FALSE
                kb, tb, eb = self.tr(b)
                if kb != "int":
                    raise Unsupported("slice bound " + kb)
                t1 = z3.If(tb < 0, tb + ln, tb)
                t2 = z3.If(t1 < 0, z3.IntVal(0), z3.If(t1 > ln, ln, t1))
                return t2, eb
            lo, e1 = bound(n.slice.lower, z3.IntVal(0))
            hi, e2 = bound(n.slice.upper, ln)
            cnt = z3.If(hi - lo > 0, hi - lo, z3.IntVal(0))
            return ("str", z3.SubString(s, lo, cnt), _or(e, e1, e2))
        ki, i, ei = self.tr(n.slice)
        if ki != "int":
            raise Unsupported("index " + ki)
        idx = z3.If(i < 0, i + ln, i)
        exc = _or(e, ei, z3.Or(i >= ln, i < -ln))      # IndexError
        return ("str", z3.SubString(s, idx, 1), exc)

    def tr_UnaryOp(self, n):
        k, t, e = self.tr(n.operand)
        if isinstance(n.op, ast.Not):
            if k == "bool":
                return ("bool", z3.Not(t), e)
            if k == "int":
                return ("bool", z3_eq(t, z3.IntVal(0)), e)
            if k == "str":
                return ("bool", z3_eq(z3.Length(t), z3.IntVal(0)), e)
        if isinstance(n.op, ast.USub) and k == "int":
            return ("int", -t, e)
        raise Unsupported("unary " + ast.dump(n.op))

    def tr_Compare(self, n):
        if len(n.ops) != 1:
            raise Unsupported("chained compare")
        (k1, a, e1), (k2, b, e2) = self.tr(n.left), self.tr(n.comparators[0])
        op = n.ops[0]
        exc = _or(e1, e2)
        if isinstance(op, (ast.Eq, ast.NotEq)):
            if k1 != k2:
                if {k1, k2} == {"int", "bool"}:
                    raise Unsupported("int/bool comparison")
                r = z3.BoolVal(False)
            else:
                r = z3_eq(a, b) if k1 != "bool" else (a == b) if False else z3.Not(z3.Xor(a, b))
            return ("bool", r if isinstance(op, ast.Eq) else z3.Not(r), exc)
        if k1 != k2:
            return ("bool", z3.BoolVal(False), z3.BoolVal(True))  # TypeError
        if k1 == "int":
            r = {ast.Lt: a < b, ast.LtE: a <= b, ast.Gt: a > b, ast.GtE: a >= b}.get(type(op))
        elif k1 == "str":
            lt = lambda x, y: z3.BoolRef(z3.Z3_mk_str_lt(x.ctx_ref(), x.as_ast(), y.as_ast()), x.ctx)
            le = lambda x, y: z3.BoolRef(z3.Z3_mk_str_le(x.ctx_ref(), x.as_ast(), y.as_ast()), x.ctx)
            r = {ast.Lt: lt(a, b), ast.LtE: le(a, b), ast.Gt: lt(b, a), ast.GtE: le(b, a)}.get(type(op))
        else:
            raise Unsupported("ordering on " + k1)
        if r is None:
            raise Unsupported("compare op")
        return ("bool", r, exc)

    def tr_IfExp(self, n):
        kc, c, ec = self.tr(n.test)
        if kc != "bool":
            raise Unsupported("IfExp test of kind " + kc)
        (k1, a, e1), (k2, b, e2) = self.tr(n.body), self.tr(n.orelse)
        if k1 != k2:
            raise Unsupported("IfExp branches of kinds %s/%s" % (k1, k2))
        return (k1, z3.If(c, a, b), _or(ec, z3.And(c, e1), z3.And(z3.Not(c), e2)))

    def tr_BoolOp(self, n):
        vals = [self.tr(v) for v in n.values]
        if any(k != "bool" for k, _, _ in vals):
            raise Unsupported("BoolOp on non-bool")
        ts = [t for _, t, _ in vals]
        # short-circuit: operand i is evaluated (and may raise) only if all earlier ones were
        # true (and) / false (or)
        is_and = isinstance(n.op, ast.And)
        excs, reached = [], z3.BoolVal(True)
        for _, t, e in vals:
            excs.append(e if z3.is_false(e) else z3.And(reached, e))
            reached = z3.And(reached, t if is_and else z3.Not(t))
        return ("bool", z3.And(*ts) if is_and else z3.Or(*ts), _or(*excs))

    def tr_BinOp(self, n):
        # int(float(a) / float(b)) is matched in tr_Call; a bare `/` is float arithmetic
        (k1, a, e1), (k2, b, e2) = self.tr(n.left), self.tr(n.right)
        exc = _or(e1, e2)
        op = n.op
        if k1 == k2 == "int":
            if isinstance(op, ast.Add):
                return ("int", a + b, exc)
            if isinstance(op, ast.Sub):
                return ("int", a - b, exc)
            if isinstance(op, ast.Mult):
                return ("int", a * b, exc)
            if isinstance(op, ast.Mod):
                return ("int", py_mod(a, b), _or(exc, self.zde(z3_eq(b, z3.IntVal(0)))))
            if isinstance(op, ast.FloorDiv):
                return ("int", py_floordiv(a, b), _or(exc, self.zde(z3_eq(b, z3.IntVal(0)))))
            if isinstance(op, ast.Pow):
                # negative exponent yields a float (not an int): treated as a raise (type assertion
                # in construct_result / wrong type); 0 ** negative raises ZeroDivisionError
                return ("int", a ** b, _or(exc, b < 0))
        if k1 == k2 == "str" and isinstance(op, ast.Add):
            return ("str", z3.Concat(a, b), exc)
        if k1 != k2 and isinstance(op, (ast.Add, ast.Sub)):
            return (k1, a, z3.BoolVal(True))  # TypeError
        raise Unsupported("binop %s on %s,%s" % (type(op).__name__, k1, k2))

    def _fold(self, f, vals: List[Val], kind: str, unit) -> Val:
        if any(k != kind for k, _, _ in vals):
            raise Unsupported("fold over mixed kinds")
        acc = unit
        for _, t, _ in vals:
            acc = t if acc is None else f(acc, t)
        return (kind, acc, _or(*[e for _, _, e in vals]))

    def tr_Call(self, n):
        fn = n.func
        name = fn.id if isinstance(fn, ast.Name) else (
            fn.attr if isinstance(fn, ast.Attribute) else None)
        if name == "cast":
            return self.tr(n.args[1])
        if name == "len":
            k, t, e = self.tr(n.args[0])
            if k != "str":
                raise Unsupported("len of " + k)
            return ("int", z3.Length(t), e)
        if name == "ord":
            k, t, e = self.tr(n.args[0])
            if k != "str":
                raise Unsupported("ord of " + k)
            code = z3.ArithRef(z3.Z3_mk_string_to_code(t.ctx_ref(), t.as_ast()), t.ctx)
            return ("int", code, _or(e, z3.Not(z3_eq(z3.Length(t), z3.IntVal(1)))))  # TypeError
        if name == "abs":
            k, t, e = self.tr(n.args[0])
            return ("int", z3abs(t), e)
        if name == "int":
            a0 = n.args[0]
            # int(float(x) / float(y))
            if (isinstance(a0, ast.BinOp) and isinstance(a0.op, ast.Div)
                    and all(isinstance(s, ast.Call) and getattr(s.func, "id", None) == "float"
                            for s in (a0.left, a0.right))):
                (k1, a, e1), (k2, b, e2) = self.tr(a0.left.args[0]), self.tr(a0.right.args[0])
                if k1 == k2 == "int":
                    self.assumptions.append("int(float(a)/float(b)) modelled as exact truncation: |a|,|b| < 2**53")
                    return ("int", trunc_div(a, b), _or(e1, e2, self.zde(z3_eq(b, z3.IntVal(0)))))
            is_float = isinstance(a0, ast.Call) and getattr(a0.func, "id", None) == "float" and len(a0.args) == 1
            if is_float:
                # int(float(x)): x int or decimal numeral string; binary64 rounding modelled exactly
                k0, t0, e0 = self.tr(ast.Call(func=ast.Name(id="int"), args=[a0.args[0]], keywords=[]))
                self.assumptions.append("int(float(x)) modelled as exact binary64 round-to-nearest-even for |x| < 2**64; "
                                        "float() also accepts non-integer notation (1e3, 1.5, inf): outside the numeral domain")
                self.domain.append(z3abs(t0) < 2 ** (53 + FLOAT_EXACT_MAX_EXP))
                return ("int", int_of_float_of_int(t0), e0)
            k, t, e = self.tr(a0)
            if k == "int":
                return (k, t, e)
            if k == "str":
                # int(str): modelled on optionally signed decimal numerals only (caller restricts the domain)
                self.assumptions.append("int(str) modelled on [+-]?[0-9]+ only")
                digits = z3.Plus(z3.Range("0", "9"))
                neg = z3.InRe(t, z3.Concat(z3.Re("-"), digits))
                pos = z3.InRe(t, z3.Concat(z3.Re("+"), digits))
                plain = z3.InRe(t, digits)
                rest = z3.SubString(t, 1, z3.Length(t) - 1)
                val = z3.If(plain, z3.StrToInt(t), z3.If(neg, -z3.StrToInt(rest), z3.StrToInt(rest)))
                return ("int", val, _or(e, z3.Not(z3.Or(plain, neg, pos))))
            raise Unsupported("int of " + k)
        if name == "sum" or name == "prod":
            seq = self._seq(n.args[0])
            if name == "sum":
                return self._fold(lambda x, y: x + y, seq, "int", z3.IntVal(0))
            return self._fold(lambda x, y: x * y, seq, "int", z3.IntVal(1))
        if name == "reduce":
            f = n.args[0]
            opname = f.attr if isinstance(f, ast.Attribute) else getattr(f, "id", None)
            seq = self._seq(n.args[1])
            if opname == "and_":
                return self._fold(lambda x, y: z3.And(x, y), seq, "bool", None)
            if opname == "or_":
                return self._fold(lambda x, y: z3.Or(x, y), seq, "bool", None)
            raise Unsupported("reduce " + str(opname))
        if name == "join" and isinstance(fn, ast.Attribute) and isinstance(fn.value, ast.Constant) and fn.value.value == "":
            seq = self._seq(n.args[0])
            return self._fold(lambda x, y: z3.Concat(x, y), seq, "str", z3.StringVal(""))
        raise Unsupported("call " + str(name))

    def _seq(self, n) -> List[Val]:
        if isinstance(n, ast.Name) and n.id == "args":
            return list(self.args)
        raise Unsupported("sequence " + ast.dump(n)[:60])


def translate_callable(fn_node: ast.AST, args: List[Val], handled=()):
    """fn_node: ast.Lambda(args) | ast.Name('sum'|'prod') | ast.FunctionDef(args) whose body is a
    sequence of asserts/assignments ending in return (try/except: first branch + 'raises' on ValueError)."""
    tr = Translator(args, handled=handled)
    res = _translate_callable(tr, fn_node)
    # a domain bound D is passed on as "not D is handled elsewhere": the obligation is restricted to D
    return res, tr.assumptions, tr.handled_conds + [z3.Not(d) for d in tr.domain]


def _translate_callable(tr, fn_node):
    if isinstance(fn_node, ast.Lambda):
        return tr.tr(fn_node.body)
    if isinstance(fn_node, ast.Name) and fn_node.id in ("sum", "prod"):
        call = ast.Call(func=fn_node, args=[ast.Name(id="args")], keywords=[])
        return tr.tr(call)
    if isinstance(fn_node, ast.FunctionDef):
        return _translate_def(tr, fn_node.body)
    raise Unsupported("callable " + type(fn_node).__name__)


def _translate_def(tr: Translator, body: List[ast.stmt]) -> Val:
    for st in body:
        if isinstance(st, ast.Assert):
            continue  # `assert len(args) == 1`
        if isinstance(st, ast.Assign) and len(st.targets) == 1 and isinstance(st.targets[0], ast.Name):
            tr.env[st.targets[0].id] = tr.tr(st.value)
            continue
        if (isinstance(st, ast.Assign) and len(st.targets) == 1 and isinstance(st.targets[0], ast.Tuple)
                and isinstance(st.value, ast.Tuple) and len(st.value.elts) == len(st.targets[0].elts)
                and all(isinstance(t, ast.Name) for t in st.targets[0].elts)):
            vals = [tr.tr(v) for v in st.value.elts]       # a, b = x, y  (right-hand sides first)
            for t, v in zip(st.targets[0].elts, vals):
                tr.env[t.id] = v
            continue
        if isinstance(st, ast.If) and st.body and isinstance(st.body[-1], ast.Return):
            # if c: return X  <rest>   ==  X if c else <rest>
            rest = body[body.index(st) + 1:] if not st.orelse else st.orelse
            kc, c, ec = tr.tr(st.test)
            if kc != "bool":
                raise Unsupported("if condition of kind " + kc)
            saved = dict(tr.env)
            k1, v1, e1 = _translate_def(tr, st.body)
            tr.env = dict(saved)
            k2, v2, e2 = _translate_def(tr, rest)
            tr.env = saved
            if k1 != k2:
                raise Unsupported("if branches of different kinds")
            return (k1, z3.If(c, v1, v2), _or(ec, z3.And(c, e1), z3.And(z3.Not(c), e2)))
        if isinstance(st, ast.Return):
            return tr.tr(st.value)
        if isinstance(st, ast.Try):
            # try: return X / except ValueError: <fallback>.  Modelled: result of X; where X raises the
            # fallback is outside the model (flagged as raising).
            return _translate_def(tr, st.body)
        raise Unsupported("statement " + type(st).__name__)
    raise Unsupported("no return")
