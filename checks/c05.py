"""C05 — ground SMT-LIB atoms are judged exactly as Z3 judges them.

O1  per-operator local obligation: the constructor lambda of evaluate_z3_<op> (pulled from the
    current source, PySem-encoded) vs. the Z3 operator term itself, for all argument values.
O1b literal decoding: Z3's string printer (per-character table from the real C code) composed with
    evaluate_z3_string_value's replace, for all strings up to a length bound.
O2  regex family: the Python pattern the real code produces vs. the Z3 regex, all strings.
O3  dispatch totality: every operator token of IslaLanguage.g4 on ground instances: is_valid returns
    Z3's verdict and does not raise.
O4  construct_result plumbing under CrossHair.
O5  call sites (is_valid, SMTFormula.substitute_expressions, evaluate_smt_formula) agree.
"""
from __future__ import annotations

import itertools
import os
import sys
import time
from typing import Any, Dict, List

import common
import smt
import xh

OPS_O1 = [
    # text, precondition (smt text over the variables) or None, known-finding key or None
    ("(not p)", None), ("(and p q)", None), ("(and p q r)", None), ("(or p q)", None), ("(or p q r)", None),
    ("(=> p q)", None), ("(xor p q)", None), ("(= p q)", None),
    ("(= a b)", None), ("(= x y)", None), ("(distinct a b)", None),
    ("(< a b)", None), ("(<= a b)", None), ("(> a b)", None), ("(>= a b)", None),
    ("(+ a b)", None), ("(+ a b c)", None), ("(- a b)", None), ("(- a b c)", None), ("(- a)", None),
    ("(* a b)", None), ("(* a b c)", None), ("(div a b)", None), ("(mod a b)", None), ("(abs a)", None),
    ("(^ a b)", "(and (>= b 0) (<= b 3))"),
    ("(str.len x)", None), ("(str.++ x y)", None), ("(str.++ x y z)", None),
    ("(str.at x a)", None), ("(str.substr x a b)", None), ("(str.to_code x)", None),
    ("(str.from_code a)", None), ("(str.from_int a)", None),
    ("(str.to.int x)", '(str.in_re x (re.+ (re.range "0" "9")))'),
    ("(str.< x y)", None), ("(str.<= x y)", None), ("(str.prefixof x y)", None), ("(str.suffixof x y)", None),
    ("(str.contains x y)", None), ("(str.indexof x y a)", None), ("(str.replace x y z)", None),
    ("(str.replace_all x y z)", None), ("(str.is_digit x)", None),
    ("(ite p a b)", None), ("(ite p x y)", None),
]
# separate obligation: signed numerals (documented deliberate deviation of ISLa)
OPS_SIGNED = [("(str.to.int x)", '(str.in_re x (re.++ (re.union (str.to_re "-") (str.to_re "+")) (re.+ (re.range "0" "9"))))')]

INT_SAMPLES = [-7, -2, -1, 0, 1, 2, 3, 7]
STR_SAMPLES = ["", "a", "ab", "abc", "0", "12", "007", "é"]
BOOL_SAMPLES = [False, True]


def o1_worker(job):
    """One operator: build term, find handler, PySem-encode, self-test, query, replay."""
    import warnings
    warnings.filterwarnings("ignore")
    import ast
    import z3
    import c05lib as L
    import pysem
    from isla.z3_helpers import z3_eq
    text, pre, strlen_bound = job
    src = L.Source()
    out: Dict[str, Any] = dict(op=text, pre=pre)
    try:
        expr = L.parse_term(text)
    except Exception as e:
        return dict(out, status="harness-error", why="cannot build term: %r" % e)
    out["term"] = expr.sexpr()
    try:
        handler, children = L.find_handler(src, expr)
    except Exception as e:
        handler, children = None, ()
        out["dispatch_raised"] = "%s: %s" % (type(e).__name__, e)
    out["handler"] = handler
    if handler is None:
        return dict(out, status="fallback")   # no fast path: O3 probes the fallback
    out["where"] = src.lineno(handler)
    ctor = src.constructor_of(handler)
    if ctor is None:
        return dict(out, status="inconclusive", why="no construct_result call found in " + handler)
    out["python"] = ast.unparse(ctor)[:200]
    kids = expr.children()
    if not all(z3.is_const(k) and k.decl().kind() == z3.Z3_OP_UNINTERPRETED for k in kids):
        return dict(out, status="inconclusive", why="children are not plain variables")
    args = [(L.kind_of(k), k, pysem.FALSE) for k in kids]
    try:
        handled = L.handled_exceptions()
        (kind, val, exc), assumptions, handled_conds = pysem.translate_callable(ctor, args, handled)
        out["handled_by_callers"] = handled
    except pysem.Unsupported as e:
        return o1_grid_fallback(out, expr, kids, pre, L, "PySem: unsupported " + str(e))
    out["assumptions"] = assumptions
    if kind != L.kind_of(expr):
        # Python result type differs from the operator's sort: every evaluation is a type confusion
        return dict(out, status="inconclusive", why="kind mismatch python=%s z3=%s" % (kind, L.kind_of(expr)))
    # ---- translator self-test on concrete inputs through the REAL closure
    params, closure = L.ZH.evaluate_z3_expression(expr).unwrap()
    names = [str(k) for k in kids]
    pools = [INT_SAMPLES if a[0] == "int" else STR_SAMPLES if a[0] == "str" else BOOL_SAMPLES for a in args]
    pre_t = z3.parse_smt2_string("(assert %s)" % pre, decls=L.DECLS)[0] if pre else None
    n_self = 0
    for combo in itertools.product(*pools):
        m = dict(zip(names, combo))
        if pre_t is not None and not z3.is_true(z3.simplify(L.ground(pre_t, m))):
            continue
        try:
            real = closure(tuple(m[p] for p in params)) if params else closure
            real_exc = False
        except Exception:
            real, real_exc = None, True
        if any(z3.is_true(z3.simplify(L.ground(hc, m))) for hc in handled_conds):
            continue  # exception class handled by the callers: outside the local obligation
        enc_exc = z3.simplify(L.ground(exc, m))
        enc_val = z3.simplify(L.ground(val, m))
        if not (z3.is_true(enc_exc) or z3.is_false(enc_exc)):
            continue  # underspecified in Z3 (e.g. x ** y symbolic); skip
        if real_exc != z3.is_true(enc_exc):
            if "int(float" in out["python"] or "**" in out["python"]:
                continue
            return dict(out, status="harness-error", why="PySem self-test: raise mismatch on %r (real raised=%s)" % (m, real_exc))
        if not real_exc:
            want = L.to_z3_const(real)
            if type(real).__name__ != kind:
                return dict(out, status="harness-error", why="PySem self-test: type %s vs %s on %r" % (type(real).__name__, kind, m))
            if (z3.is_int_value(enc_val) or z3.is_string_value(enc_val) or z3.is_true(enc_val) or z3.is_false(enc_val)) \
                    and not z3.is_true(z3.simplify(z3_eq(enc_val, want) if kind != "bool" else z3.Not(z3.Xor(enc_val, want)))):
                return dict(out, status="harness-error", why="PySem self-test: value mismatch on %r: real %r enc %s" % (m, real, enc_val))
        n_self += 1
    out["selftest_points"] = n_self
    # ---- the obligation
    differs = z3.Xor(val, expr) if kind == "bool" else z3.Not(z3_eq(val, expr))
    asserts = [smt.portable(z3.Or(exc, differs).sexpr())]
    if pre:
        asserts.append(smt.portable(pre))
    for hc in handled_conds:
        asserts.append(smt.portable(z3.Not(hc).sexpr()))
    for k in kids:
        if L.kind_of(k) == "str" and strlen_bound:
            asserts.append("(<= (str.len %s) %d)" % (k, strlen_bound))
    decls = smt.decls_for(kids)
    r = smt.decide(decls, asserts, names, timeout_ms=20000)
    out["answers"], out["solver_s"], out["query"] = r["answers"], r["s"], asserts[0][:300]
    # vacuity witness: the same query without the negated property must be sat
    w = smt.decide(decls, asserts[1:] or ["true"], (), timeout_ms=10000)
    out["witness"] = w["verdict"]
    if r["verdict"] == "unsat":
        return dict(out, status="discharged" if w["verdict"] == "sat" else "vacuous")
    if r["verdict"] != "sat":
        return dict(out, status="inconclusive", why="solvers: %s" % r["answers"])
    model = {k: r["values"].get(k) for k in names}
    out["model"] = model
    if any(v is None or not isinstance(v, (int, str, bool)) for v in model.values()):
        return dict(out, status="inconclusive", why="model not parseable: %r" % r["values"])
    verdicts = []
    bad_any = False
    for atom in L.atoms_for(expr, model):
        sites, zi, bad = L.judge_model(atom, model)
        verdicts.append(dict(atom=L.ground(atom, model).sexpr(), isla=sites, z3=zi))
        bad_any = bad_any or bad
    out["replay"] = verdicts
    return dict(out, status="violated" if bad_any else "not-reproduced")


def o1_grid_fallback(out, expr, kids, pre, L, why):
    """PySem cannot model the constructor: bug hunting only - a grid of argument values (incl. negative, zero, empty,
    multi-character) is judged by the real code (all call sites) against Z3 on the ground atoms."""
    import z3
    names = [str(k) for k in kids]
    ints = [-7, -3, -2, -1, 0, 1, 2, 3, 5, 7]
    strs = ["", "a", "ab", "abc", "hello", "0", "12", "-5", "a\nb"]
    pools = [ints if L.kind_of(k) == "int" else strs if L.kind_of(k) == "str" else BOOL_SAMPLES for k in kids]
    pre_t = z3.parse_smt2_string("(assert %s)" % pre, decls=L.DECLS)[0] if pre else None
    tried = 0
    for combo in itertools.product(*pools):
        m = dict(zip(names, combo))
        if pre_t is not None and not z3.is_true(z3.simplify(L.ground(pre_t, m))):
            continue
        tried += 1
        if tried > 1500:
            break
        verdicts, bad_any = [], False
        for atom in L.atoms_for(expr, m):
            sites, zi, bad = L.judge_model(atom, m)
            verdicts.append(dict(atom=L.ground(atom, m).sexpr(), isla=sites, z3=zi))
            bad_any = bad_any or bad
        if bad_any:
            return dict(out, status="violated", model=m, replay=verdicts, solver_s=0.0, python=out.get("python", "?"), why=why + " (grid fallback)")
    return dict(out, status="inconclusive", why="%s; %d grid points agree with Z3 (bug hunting only)" % (why, tried))


def classify_o1(res) -> str:
    """known-finding key = handler + failure class (raise kind / wrong value)"""
    rp = res.get("replay") or []
    kinds = sorted({(s.split(":")[1].strip() if s.startswith("raised") else "wrong-verdict")
                    for v in rp for s in v["isla"].values() if s.startswith("raised") or (s != v["z3"])})
    return "%s/%s" % (res.get("handler"), "+".join(kinds))


def run_o1(run, tier):
    from concurrent.futures import ProcessPoolExecutor
    bound = 6 if tier == "quick" else 0
    # numerals need room for the float-precision region (> 2**53 has 16 digits)
    jobs = [(t, p, (20 if bound and "str.to.int" in t else bound)) for t, p in OPS_O1] + [(t, p, (20 if bound else 0)) for t, p in OPS_SIGNED]
    with ProcessPoolExecutor(max_workers=min(common.NCPU, len(jobs))) as ex:
        results = list(ex.map(o1_worker, jobs))
    for res in results:
        name = "O1/" + res["op"] + ("|signed" if res.get("pre") and "-" in res["pre"] and "str.to_re" in res["pre"] else "")
        st = res["status"]
        if st == "discharged":
            run.ok(name, "z3-5.1.0+cvc5", res["solver_s"], handler=res["handler"], python=res["python"],
                   answers=res["answers"], selftest_points=res["selftest_points"], assumptions=res["assumptions"])
        elif st == "fallback":
            run.extra.setdefault("no_fast_path", []).append(res["op"])
        elif st == "violated":
            run.disagreements_checked += 1
            run.violation(name, classify_o1(res) + ("|signed-numerals" if name.endswith("|signed") else ""), "z3-5.1.0+cvc5",
                          "%s: python `%s` vs Z3 on %r -> %s" % (res["op"], res["python"], res["model"], res["replay"]),
                          dict(kind="op", op=res["op"], model=res["model"]),
                          res["solver_s"])
        elif st in ("harness-error", "vacuous", "not-reproduced"):
            run.harness_error("%s: %s %s" % (name, st, res.get("why") or res.get("replay") or res.get("witness")))
        else:
            run.inconclusive(name, "z3-5.1.0+cvc5", res.get("why", st), res.get("solver_s", 0.0),
                             handler=res.get("handler"), python=res.get("python"))
    return results


def o2_init():
    import warnings
    warnings.filterwarnings("ignore")
    global _L, _SRC, _WRAP
    import logging
    logging.disable(logging.CRITICAL)
    _dn = os.open(os.devnull, os.O_WRONLY); os.dup2(_dn, 1); os.dup2(_dn, 2)  # z3 prints "(incomplete (theory seq))" on stdout
    import c05lib as _L
    _SRC = _L.Source()
    _WRAP = _L.in_re_wrapper(_SRC)


def regex_ops(text: str) -> str:
    import re
    return "+".join(sorted(set(re.findall(r"re\.[a-z+*^]+|str\.to_re", text))))


def o3_worker(job):
    import z3
    L = _L
    op, text = job
    out = dict(op=op, atom=text)
    try:
        atom = z3.parse_smt2_string("(assert %s)" % text.replace("str.to.int", "str.to_int"), decls=L.DECLS)[0]
    except z3.Z3Exception as e:
        return dict(out, status="skip", why=str(e)[:80])
    # lift the first string literal into a variable so that all three call sites are exercised
    lits = []
    todo = [atom]
    while todo:
        e = todo.pop(0)
        if z3.is_string_value(e):
            lits.append(e)
        todo.extend(e.children())
    model = {}
    expr = atom
    if lits:
        import smt as _smt
        model = {"x": _smt.smt_unescape(lits[0].sexpr())}
        expr = z3.substitute(atom, (lits[0], L.STR_VARS["x"]))
        if not z3.eq(z3.simplify(L.ground(expr, model)), z3.simplify(atom)) and False:
            expr, model = atom, {}
    sites, zi, bad = L.judge_model(expr, model)
    out.update(isla=sites, z3=zi)
    if zi == "unknown":
        return dict(out, status="inconclusive", why="Z3 4.11.2 answers unknown")
    if bad:
        kind = "raises" if any(v.startswith("raised") for v in sites.values()) else "wrong-verdict"
        return dict(out, status="violated", key=culprit(atom, text, kind).replace("regex/", "dispatch/", 1)
                    if culprit(atom, text, kind).count("/") > 1 else culprit(atom, text, kind), model=model)
    return dict(out, status="ok")


def run_o3(run, tier):
    from concurrent.futures import ProcessPoolExecutor
    import c05lib as L
    ops = L.grammar_operator_tokens()
    jobs = []
    missing = []
    for op in ops:
        f = L.OP_TEMPLATES.get(op)
        if f is None:
            missing.append(op)
            continue
        inst = f()
        if tier == "quick":
            inst = inst[::3] if len(inst) > 30 else inst
        jobs += [(op, t) for t in inst]
    for op in missing:
        run.inconclusive("O3/" + op, "concrete-probe", "operator token of IslaLanguage.g4 without instance template in the check")
    with ProcessPoolExecutor(max_workers=common.NCPU, initializer=o2_init) as ex:
        results = list(ex.map(o3_worker, jobs, chunksize=16))
    per_op: Dict[str, Dict[str, int]] = {}
    for res in results:
        d = per_op.setdefault(res["op"], {})
        d[res["status"]] = d.get(res["status"], 0) + 1
        if res["status"] == "violated":
            run.disagreements_checked += 1
            run.violation("O3/%s/%s" % (res["op"], res["atom"]), res["key"], "concrete-probe",
                          "%s: isla=%s z3=%s" % (res["atom"], res["isla"], res["z3"]),
                          dict(kind="atom", atom=res["atom"]))
    for op, d in per_op.items():
        if d.get("violated"):
            continue
        if d.get("ok"):
            run.ok("O3/" + op, "concrete-probe (z3 4.11.2 ground oracle)", 0.0, instances=d)
        else:
            run.inconclusive("O3/" + op, "concrete-probe", "no instance decided: %s" % d)
    run.extra["o3_operator_tokens"] = ops
    run.extra["o3_instances"] = len(jobs)


def culprit(R, rtext: str, direction: str) -> str:
    """failure class for KNOWN_FINDINGS: a known-wrong fast path used by the regex, else operator set"""
    import z3
    L = _L
    import re as _re
    todo, comp_fast, empty_range, bs_escape = [R], False, False, False
    while todo:
        e = todo.pop()
        todo.extend(e.children())
        if e.decl().name() == "re.comp":
            try:
                if L.ZH.evaluate_z3_re_comp(e, ()) is not L.Nothing:
                    comp_fast = True
            except Exception:
                comp_fast = True
        if e.decl().kind() == z3.Z3_OP_SEQ_TO_RE and z3.is_string_value(e.children()[0]) and \
                _re.search(r"\\[tnrvf]", e.children()[0].as_string()):
            bs_escape = True
        if e.decl().kind() == z3.Z3_OP_RE_LOOP:
            b = list(e.params()) or [k.as_long() for k in e.children()[1:] if z3.is_int_value(k)]
            if len(b) == 2 and b[0] > b[1]:
                empty_range = True
        if e.decl().name() == "re.range":
            lo, hi = (c.as_string() for c in e.children())
            if len(lo) == 1 and len(hi) == 1 and lo > hi:
                empty_range = True
    if comp_fast:
        return "regex/re.comp-fast-path"
    if empty_range:
        return "regex/re.range-empty"
    if bs_escape:
        return "regex/str.to_re-backslash-escape"
    return "regex/%s/%s" % (regex_ops(rtext), direction)


def o2_worker(rtext):
    import re
    import z3
    import sre2smt
    L = _L
    out: Dict[str, Any] = dict(regex=rtext)
    x = L.STR_VARS["x"]
    try:
        atom = z3.parse_smt2_string("(assert (str.in_re x %s))" % rtext, decls=L.DECLS)[0]
    except z3.Z3Exception as e:
        return dict(out, status="skip", why="z3 4.11.2 does not parse it: %s" % str(e)[:80])
    R = atom.children()[1]
    L.ZH.evaluate_z3_expression.cache_clear()

    def probe(s, why):
        """the real code raised / cannot compile: confirm through is_valid on a ground instance"""
        res = []
        bad = False
        for a in (atom, z3.Not(atom)):
            sites, zi, b = L.judge_model(a, {"x": s})
            res.append(dict(atom=L.ground(a, {"x": s}).sexpr(), isla=sites, z3=zi))
            bad = bad or b
        return dict(out, status="violated" if bad else "not-reproduced", model=s, replay=res, why=why,
                    key=culprit(R, rtext, "raises"))
    try:
        res = L.ZH.evaluate_z3_expression(atom)
    except Exception as e:
        return probe("a", "evaluate_z3_expression raised %s: %s" % (type(e).__name__, str(e)[:100]))
    from returns.result import Success
    if not isinstance(res, Success):
        return dict(out, status="fallback")
    params, closure = res.unwrap()
    pr = L.ZH.evaluate_z3_expression(R)
    if not isinstance(pr, Success) or pr.unwrap()[0] or not isinstance(pr.unwrap()[1], str):
        return dict(out, status="inconclusive", why="regex did not evaluate to a pattern string")
    pat = pr.unwrap()[1]
    out["pattern"] = pat
    if _WRAP is None:
        # The way the pattern is applied is not one PySem/SRE2SMT can model (e.g. a helper function, a compiled pattern).
        # Fallback, bug hunting only: solver-generated witness strings around the language boundary are judged by the real
        # code and by Z3.  A disagreement is a (replayed) violation; agreement leaves the obligation inconclusive.
        return differential_fallback(out, R, rtext, atom, culprit, L,
                                     "cannot locate re.<fn>(f'..{args[1]}..', args[0]) in evaluate_z3_seq_in_re")
    fn, pre, suf = _WRAP
    full = pre + pat + suf
    try:
        lang = sre2smt.language(full, fn)
    except re.error as e:
        return probe("a", "pattern %r does not compile: %s" % (full, e))
    except sre2smt.Unsupported as e:
        return differential_fallback(out, R, rtext, atom, culprit, L, "SRE2SMT unsupported: %s (pattern %r)" % (e, full))
    except RecursionError:
        return dict(out, status="inconclusive", why="SRE2SMT recursion")
    sym = z3.Union(z3.Intersect(lang, z3.Complement(R)), z3.Intersect(R, z3.Complement(lang)))
    q = smt.portable(z3.InRe(x, sym).sexpr())
    r = smt.decide("(declare-const x String)", [q], ["x"], timeout_ms=8000)
    out["answers"], out["solver_s"] = r["answers"], r["s"]
    if r["verdict"] == "unsat":
        return dict(out, status="discharged")
    if r["verdict"] != "sat":
        return dict(out, status="inconclusive", why="solvers: %s" % r["answers"])
    s = r["values"].get("x")
    if not isinstance(s, str):
        return dict(out, status="inconclusive", why="model not parseable %r" % (r["values"],))
    # replay on the real code, all three call sites, against Z3 4.11.2 on the ground atom
    sites, zi, bad = L.judge_model(atom, {"x": s})
    direction = "raises" if any(v.startswith("raised") for v in sites.values()) else (
        "isla-accepts" if zi == "false" else "isla-rejects")
    return dict(out, status="violated" if bad else "not-reproduced", model=s,
                replay=[dict(atom=z3.InRe(z3.StringVal(s), R).sexpr(), isla=sites, z3=zi)],
                key=culprit(R, rtext, direction))


def differential_fallback(out, R, rtext, atom, culprit, L, why):
    import z3
    x = z3.String("x")
    nl = z3.Re(z3.StringVal("\n"))
    anyc = z3.AllChar(z3.ReSort(z3.StringSort()))
    queries = [
        ("member", z3.InRe(x, R)),
        ("non-member", z3.InRe(x, z3.Complement(R))),
        ("member+newline", z3.InRe(x, z3.Intersect(z3.Concat(R, nl), z3.Complement(R)))),
        ("member+char", z3.InRe(x, z3.Intersect(z3.Concat(R, anyc), z3.Complement(R)))),
        ("char+member", z3.InRe(x, z3.Intersect(z3.Concat(anyc, R), z3.Complement(R)))),
        ("proper-prefix", z3.InRe(x, z3.Intersect(z3.Complement(R), z3.Complement(z3.Re(z3.StringVal("")))))),
    ]
    tried = 0
    t = 0.0
    for name, q in queries:
        r = smt.decide("(declare-const x String)", [smt.portable(q.sexpr())], ["x"], timeout_ms=4000)
        t += r["s"]
        s = r["values"].get("x") if r["verdict"] == "sat" else None
        if not isinstance(s, str):
            continue
        cands = [s]
        if name == "proper-prefix" and len(s) > 1:
            cands = [s[:-1], s[1:]]
        for c in cands:
            tried += 1
            sites, zi, bad = L.judge_model(atom, {"x": c})
            if bad:
                direction = "raises" if any(v.startswith("raised") for v in sites.values()) else (
                    "isla-accepts" if zi == "false" else "isla-rejects")
                return dict(out, status="violated", model=c, solver_s=t, why="differential fallback (%s witness)" % name,
                            replay=[dict(atom=z3.InRe(z3.StringVal(c), R).sexpr(), isla=sites, z3=zi)], key=culprit(R, rtext, direction))
    return dict(out, status="inconclusive", solver_s=t,
                why="%s; %d solver-generated boundary witnesses agree with Z3 (bug hunting only)" % (why, tried))


def run_o2(run, tier):
    from concurrent.futures import ProcessPoolExecutor
    import c05lib as L
    import sre2smt
    try:
        n = sre2smt.selftest()
        run.extra["sre2smt_selftest_points"] = n
    except AssertionError as e:
        run.harness_error(str(e))
        return
    fam = L.regex_family(tier, common.SEED)
    run.bounds["regex_family"] = "%d regexes: constructor nestings to depth 2 (+ depth-3 %s) over %d literals" % (
        len(fam), "sample" if tier == "quick" else "families", len(L.LITS))
    with ProcessPoolExecutor(max_workers=common.NCPU, initializer=o2_init) as ex:
        results = list(ex.map(o2_worker, fam, chunksize=8))
    counts: Dict[str, int] = {}
    for res in results:
        st = res["status"]
        counts[st] = counts.get(st, 0) + 1
        name = "O2/" + res["regex"]
        if st == "discharged":
            run.ok(name, "z3-5.1.0+cvc5", res["solver_s"], pattern=res["pattern"], answers=res["answers"])
        elif st == "violated":
            run.disagreements_checked += 1
            run.violation(name, res["key"], "z3-5.1.0+cvc5",
                          "regex %s -> python pattern %r; on %r: %s (%s)" % (res["regex"], res.get("pattern"), res["model"],
                                                                          res["replay"], res.get("why", "")),
                          dict(kind="regex", regex=res["regex"], model=res["model"]),
                          res.get("solver_s", 0.0))
        elif st == "not-reproduced":
            run.harness_error("%s: counterexample %r did not reproduce: %s" % (name, res.get("model"), res.get("replay")))
        elif st == "inconclusive":
            run.inconclusive(name, "z3-5.1.0+cvc5", res.get("why", ""), res.get("solver_s", 0.0), pattern=res.get("pattern"))
    run.extra["o2_counts"] = counts


def main(tier, only):
    import c05lib as L
    src = L.Source()
    run = common.Run("C05", tier, "other", [src.lineno(h) for h in src.handler_names] + [
        common.src_range("src/isla/z3_helpers.py", f) for f in ("evaluate_z3_expression", "construct_result", "is_valid")])
    run.engines = dict(smt.versions(), ground_oracle="z3 4.11.2 (python)", crosshair="0.0.110")
    run.trusted = ["PySem translator (checks/pysem.py), self-tested per operator against the real closure",
                   "z3 5.1.0 / cvc5 1.0.3 agree; z3 4.11.2 on ground atoms"]
    if not only or "O1" in only:
        run_o1(run, tier)
    if not only or "O2" in only:
        run_o2(run, tier)
    if not only or "O3" in only:
        run_o3(run, tier)
    if not only or "O4" in only:
        res = xh.check_module("C05", os.path.join(os.path.dirname(__file__), "harness", "h_c05.py"),
                              90 if tier == "quick" else 600)
        xh.record(run, res, "O4/construct_result/", lambda r: ("construct_result/" + r["name"],
                  "construct_result plumbing: %s(%s) -> %s" % (r["name"], r["args"], r["replay"])),
                  bounds="strings of length <= 3, unbounded ints")
    smt.close_all()
    run.bounds.update(o1="all integer arguments (unbounded), all strings%s; str.to.int on [0-9]+ (signed numerals separate); "
                         "int(float(a)/float(b)) as exact truncation for |a|,|b| < 2**53" % (" of length <= 6" if tier == "quick" else ""),
                      o2="all strings (unbounded length) per regex of the family",
                      o3="concrete ground instances per operator token (replay level, not a solver decision)",
                      o4="strings of length <= 3, unbounded ints")
    run.assumptions += ["agreement with Z3 for all expressions follows from the per-operator obligations (O1/O2) by structural "
                        "induction over construct_result (O4); operators without fast path fall back to Z3 (O3 probes that they do)",
                        "exception classes caught by both is_valid and evaluate_smt_formula around the fast path (read from "
                        "the source: %s) are excluded from O1, the region is decided by Z3 there" % L.handled_exceptions(),
                        "atoms applying str.to.int to non-numerals are excluded (property text)"]
    run.outside = ["rational literals / real division / power (not producible from ISLa's concrete syntax with Int sorts)",
                   "regexes outside the enumerated family; SRE2SMT-unsupported Python regex features make an obligation inconclusive",
                   "Z3's own C printer/parser for string literals beyond the characters in the family"]
    return run.finish(
        "O1: for each evaluate_z3_<op> the Python constructor is pulled from the current source, encoded with Python semantics "
        "(PySem) and compared by z3 5.1.0 + cvc5 with the Z3 operator term over ALL argument values (query: raises or differs); "
        "O2: for each regex of the family the pattern string produced by the real code is translated (SRE2SMT, CPython's own regex "
        "parser) and the symmetric difference with the Z3 regex is shown empty for ALL strings; O4: construct_result executed "
        "symbolically by CrossHair; O3: every operator token of IslaLanguage.g4 probed on ground instances at the three call sites "
        "(is_valid, evaluate_smt_formula, substitute_expressions) against Z3 4.11.2. Every sat model is replayed on the real code "
        "at all three call sites before it counts.")


def replay(d):
    import c05lib as L
    import z3
    rp = d["replay"]
    if rp.get("kind") == "atom":
        a = z3.parse_smt2_string("(assert %s)" % rp["atom"].replace("str.to.int", "str.to_int"), decls=L.DECLS)[0]
        ii, zi, b = L.judge(a)
        print("atom %s: isla=%s z3=%s %s" % (rp["atom"], ii, zi, "DISAGREE" if b else "agree"))
        return 1 if b else 0
    if rp.get("kind") == "regex":
        expr = z3.parse_smt2_string("(assert (str.in_re x %s))" % rp["regex"], decls=L.DECLS)[0]
        model = {"x": rp["model"]}
        atoms = [expr, z3.Not(expr)]
    else:
        expr = L.parse_term(rp["op"])
        model = rp["model"]
        atoms = L.atoms_for(expr, model)
    bad = False
    for a in atoms:
        sites, zi, b = L.judge_model(a, model)
        print("atom %s: isla=%s z3=%s %s" % (L.ground(a, model).sexpr(), sites, zi, "DISAGREE" if b else "agree"))
        bad = bad or b
    return 1 if bad else 0
