#!/usr/bin/env python3
"""Regenerates MANIFEST.json from the table below (single source of truth)."""
import json, os
HERE = os.path.dirname(os.path.abspath(__file__))
BASE = "cd /repo && /venv/bin/python -m pytest -ra -q -p no:cacheprovider --timeout=900 --continue-on-collection-errors"
BOUNDED = ("bounded symbolic checking: solver verdict over all values of the symbolic inputs within the stated "
           "bounds; not a proof. ")

CHECKS = {
 "C04": dict(level="other", technique="CrossHair symbolic execution of the real predicate functions (z3), reference definitions as postconditions",
   text=BOUNDED + "Two symbolic paths (length <= 3 quick / 5 thorough, unbounded child indices) through the real "
        "is_before/is_after/in_tree/is_direct_child/is_same_position/is_different_position; nth/consecutive/level on a tree "
        "portfolio with symbolic valid paths, symbolic n and operator. 'Confirmed over all paths' per obligation.",
   note="Trusted: reference definitions transcribed from islaspec.rst, CrossHair's int/list models. Outside: longer paths, trees outside the portfolio.",
   design="§3 C04"),
 "C05": dict(level="other", technique="SMT (z3 5.1.0 + cvc5): per-operator Python-semantics encoding of the real fast-path constructors vs Z3 operator terms; regex-language equivalence of the produced Python patterns; CrossHair on construct_result",
   text=BOUNDED + "Per-operator local obligations over all integers / all strings, regex language equivalence over all strings for an "
        "enumerated regex family (~800 quick / ~15k thorough), plumbing by CrossHair; together they give agreement with Z3 by structural induction. "
        "Operators without fast path are probed for falling back to Z3 at all three call sites.",
   note="Trusted: PySem and SRE2SMT translators (self-tested against the real closures / CPython re on every run), z3 5.1.0 and cvc5 1.0.3 agreeing, z3 4.11.2 as ground oracle. Known findings listed in KNOWN_FINDINGS.txt.",
   design="§3 C05"),
 "C09": dict(level="translation_validation", technique="translation validation: SMT (z3) equivalence of first-order encodings of the formula before/after the real rewrite, over all tree structures",
   text="Translation validation: for each of ~700 (quick) / ~7000 (thorough) enumerated formula programs (parsed texts incl. Boolean structure inside SMT atoms, and ASTs built without the parser: n-ary connectives, name clashes, one name over two nonterminals) the real rewrite is run and z3 proves "
        "enc(F) <=> enc(rewrite F) over all first-order structures (so over all trees, all predicate interpretations; SMT atoms stay interpreted). "
        "The formula family is enumerated, the tree is quantified by the solver. A raise is a violation; a sat or unknown answer only with a concrete witness tree judged by the real evaluate() or by the reference semantics.",
   note="Trusted: FOL encoder (checks/fol.py), z3 4.11.2 + z3 5.1.0 re-check. Outside: formula shapes outside the family; formulas with concrete tree arguments.",
   design="§3 C09"),
 "C07": dict(level="translation_validation", technique="translation validation: SMT (z3) equivalence of the first-order encodings of parse_isla(text) and parse_isla(unparse_isla(.)) over all tree structures, plus concrete equality/idempotence side conditions",
   text="Translation validation: for each enumerated constraint text (core family, simplified-syntax family, one text per SMT-LIB operator token and small bound of the indexed regex operators, optional match-expression parts, "
        "escape-character match expressions) F and F2 = parse(unparse(F)) are produced by the real code and z3 proves enc(F) <=> enc(F2) for all trees; "
        "the property's concrete clauses (re-parse accepted, F2 == F, unparse(F2) == unparse(F)) are checked per program.",
   note="Trusted: FOL encoder, z3. Outside: literal contents are enumerated (Z3's C printer / ANTLR cannot be made symbolic); texts outside the family. Ten known findings (KNOWN_FINDINGS.txt).",
   design="§3 C07"),
 "C15": dict(level="other", technique="SMT (z3 5.1.0 + cvc5): regular-language emptiness queries over the real regex objects and the intervals the real function returns; CrossHair on merge_intervals",
   text=BOUNDED + "For every regex of the family derived from the docstring BNF of numeric_intervals_from_regex (~190 quick / thousands thorough) the solver decides, "
        "for ALL strings, soundness L(R) subseteq NumLang(I) and completeness (every integer of I has a rendering in L(R)); compress_concatenation_elements is "
        "checked by language equivalence on all element lists up to a length bound; merge_intervals by CrossHair with symbolic endpoints.",
   note="Trusted: NumLang/Canon regex builders (self-tested against Python int() on every run), z3 5.1.0 (cvc5 1.0.3 cross-checks where it answers within 1.2 s). Precondition: L(R) contains numerals only. Known finding: symmetric full range.",
   design="§3 C15"),
 "C10": dict(level="other", technique="CrossHair (z3): exhaustive solver-driven enumeration of all input strings up to a length bound through the real Earley parser, independent fixpoint recogniser as oracle",
   text=BOUNDED + "Real EarleyParser.parse / ISLaSolver.parse on EVERY string up to length 4 (quick) / 6 (thorough) over the alphabet abstraction of 11 grammars "
        "(nullable chains, left/right recursion, ambiguity, multi-character terminals, multi-alternative and recursive start symbols, non-start entry); "
        "CrossHair's 'Confirmed over all paths' = exhaustive within the bound. Membership vs an independent recogniser; trees validated and must spell the input; parse from every nonterminal; parse_on followed by parse on one parser object.",
   note="Trusted: recogniser + tree validator in the harness; alphabet abstraction (parser compares characters by == only). [decoder] use of the engine: after the input is realised the parser runs natively. Outside: longer strings, other grammars.",
   design="§3 C10"),
 "C16": dict(level="other", technique="CrossHair (z3): symbolic trie-key codec with unbounded child indices; solver-driven exhaustive enumeration of bounded trees, every tree operation checked against an independent traversal",
   text=BOUNDED + "(1) path_to_trie_key/trie_key_to_path on symbolic paths (length <= 3/5, unbounded indices): round trip, prefix preservation, alphabet. "
        "(2) every (open or closed) tree decodable from <= 6/8 symbolic choices, every replace_path (also with retain_id)/substitute (one and two keys)/expand_one_step on it (pairs of operations for smaller trees), "
        "a node with 27 and with 40 children: string, openness flags, paths/get_subtree/find_node/trie/sub-tries, structural equality vs hash, locality of replace_path.",
   note="Trusted: reference traversal in the harness. [decoder] for (2). Outside: larger trees, longer sequences, k_paths caches. Known finding: trie alphabet (children >= 28).",
   design="§3 C16"),
 "C03": dict(level="other", technique="CrossHair (z3): solver-driven exhaustive enumeration of all closed trees of a bounded family; the real evaluate() vs. a reference interpreter of the specification (Z3 decides instantiated SMT atoms)",
   text=BOUNDED + "Every closed derivation tree of the assignment grammar with <= 2 (quick, 240 trees) / <= 3 (thorough, 3615 trees) statements x a family of ~70 constraints "
        "(tree quantifiers with/without match expressions and optionals, all structural predicates incl. ancestor/descendant pairs, count, numeric quantifiers = second evaluation strategy, "
        "SMT atoms, connectives, simplified syntax): evaluate() must equal the reference semantics transcribed from islaspec.rst, never UNKNOWN, never raise.",
   note="Trusted: checks/refsem.py; to_tree_prefix for mexprTrees; numeral candidates for numeric quantifiers. [decoder]. Outside: other grammars/trees/formulas; wide nodes (C16 trie finding).",
   design="§3 C03"),
 "C06": dict(level="other", technique="CrossHair (z3): solver-driven exhaustive enumeration of open trees; real evaluate() on the open tree vs. reference semantics on every completion; symbolic Kleene monotonicity of ThreeValuedTruth",
   text=BOUNDED + "Every open tree of the bounded family and every completion (same node identities): a TRUE/FALSE verdict of the real evaluate() on the open tree must equal the "
        "reference verdict on the completion, for each of ~70 constraints; plus monotonicity of all/any/not/and/or under refinement of UNKNOWN on symbolic truth values.",
   note="Trusted: checks/refsem.py. [decoder]. Known findings: numeric-quantifier strategy on open trees; unbound nested nonterminals of match expressions.",
   design="§3 C06"),
 "C08": dict(level="translation_validation", technique="translation validation: SMT (z3) equivalence of the first-order encodings of parse_isla(simplified text) and parse_isla(hand-expanded core text) over all tree structures",
   text="Translation validation: ~105 (simplified, hand-expanded core) pairs generated from paired templates that follow the 'Simplified Syntax' section rule by rule (omitted `in start` / names, "
        "free-nonterminal closure over 18 body shapes, XPath child/index (positions 1..12)/descendant axes and chains, prefix/infix SMT with precedence and negative literals, implies/iff/xor, several XPath expressions on one variable, fresh-name interplay between XPath variables / free nonterminals / unnamed quantifiers / const declarations, name reuse across sibling scopes); "
        "both sides are parsed by the real parser and z3 proves them equivalent for all trees; a rejected documented form and a translation that re-binds a variable inside its own scope are violations.",
   note="Trusted: the hand-expanded core forms, FOL encoder, z3. Known findings (12, KNOWN_FINDINGS.txt): closure pushed into conjunctions, descendant axis under an existential, unnamed quantifiers sharing fresh variables, variables resolved by name only, two XPath expressions through one child.",
   design="§3 C08"),
 "C12": dict(level="other", technique="CrossHair (z3): solver-driven exhaustive enumeration of bounded input trees; real fuzzer/mutator with the random module replaced by every periodic draw stream",
   text=BOUNDED + "Real GrammarFuzzer/GrammarCoverageFuzzer.expand_tree and Mutator.replace_subtree_randomly/generalize_subtree/swap_subtrees/mutate on every tree decodable from <= 4/6 choices over 4 grammars "
        "(also with sibling nodes sharing an id and with inputs rooted at other nonterminals), "
        "for every periodic random stream of period 2/3 over 4 values: result closed, valid for the grammar, same root, expanded part unchanged.",
   note="Trusted: tree validator, random stub. [decoder]. Outside: aperiodic streams, larger trees.",
   design="§3 C12"),
 "C14": dict(level="other", technique="CrossHair (z3): symbolic target length / start nonterminal / target count enumerated by the solver, real create_fixed_length_tree and count() with stubbed random streams",
   text=BOUNDED + "create_fixed_length_tree for every target length 0..8/14, 4 grammars x every nonterminal as start, every periodic random stream: a returned tree is closed, valid and has exactly the requested length. "
        "count() on every partial tree decodable from <= 4/6 choices, targets -1..4, 3 needles: verdicts agree with the needle count and reachability; completions have exactly the target count and no open leaf that can still produce a needle.",
   note="Trusted: validator, needle counting, GrammarGraph.reachable. [decoder]. Only soundness of returned trees is claimed (None always allowed). Outside: numeric model-value parsing, larger targets.",
   design="§3 C14"),
 "C20": dict(level="other", technique="CrossHair (z3): solver-driven exhaustive enumeration of bounded argument strings/trees, real semantic predicates vs. the documented relation",
   text=BOUNDED + "octal_to_decimal (as shipped for TAR) on all octal x decimal numerals of <= 2/3 digits in all three argument modes; crop/ljust/rjust/ljust_crop/rjust_crop/extend_crop on all strings "
        "of <= 3/4 characters x widths x fill characters; count on all bounded closed trees with recursive needles: verdict = documented relation, replacements satisfy it and are valid trees.",
   note="Trusted: Python int(s,8)/ljust/rjust/slicing as reference. [decoder]. Outside: longer arguments, just without crop on too-long arguments (asserted), tar checksum.",
   design="§3 C20"),
 "C11": dict(level="other", technique="CrossHair (z3): solver-driven exhaustive enumeration of terminal strings over the escape-relevant alphabet; real unparse_grammar/parse_bnf round trip with exact language comparison",
   text=BOUNDED + "Every terminal string of <= 2/3 characters over 21 escape-relevant characters (quote, backslash, control characters, '<', '>', NUL, non-ASCII, the letters of the escape tokens) placed into 3 grammar skeletons: "
        "the printed grammar is accepted again, is identical when no terminal contains '<', and every original nonterminal derives exactly the same (finite) language.",
   note="Trusted: language enumeration in the harness. [decoder] (the ANTLR parser cannot be executed symbolically). Outside: longer terminals, other characters, recursive grammars.",
   design="§3 C11"),
 "C19": dict(level="other", technique="CrossHair (z3): solver-driven exhaustive enumeration of a bounded command-line scenario space; the real isla.cli.main run in-process, expected exit code from the documented contract + reference semantics",
   text=BOUNDED + "Every command line of the family (check/parse/find x grammar file/--grammar/malformed/missing x two constraint slots incl. syntax errors, unknown nonterminals, unknown predicates, -c or .isla file "
        "x 15 inputs incl. empty file, newline only, JSON tree, JSON scalars / lists / invalid JSON trees x file/--input-string): exit 0 iff member and all constraints hold, 1 otherwise, 65 + message for malformed "
        "grammar/constraint, 2 for missing pieces, never an uncaught exception; `isla parse` output accepted by `isla check`.",
   note="Trusted: contract transcription + checks/refsem.py. [decoder]. Outside: solve/fuzz/repair/mutate/create commands, argparse, file-system errors.",
   design="§3 C19"),
 "C17": dict(level="other", technique="CrossHair (z3): solver-driven exhaustive enumeration of bounded trees and string literals; every bounded sequence of serialisations/cache computations; z3 decides semantic equality of restored formulas",
   text=BOUNDED + "Trees decodable from <= 4/6 choices (ids bottom-up and top-down) x every sequence of <= 2/3 operations (to_json, pickle, k_paths, hashes, str, from_json): the original is unchanged, JSON/pickle decoding in a fresh-interpreter "
        "id state gives the same structure/ids/string and keeps the id counter above the decoded ids, the CLI JSON reads back. SMT formulas with every literal of <= 2/3 characters over 15 escape-relevant characters survive pickling.",
   note="Trusted: reference traversal; next_id reset simulates a fresh interpreter. [decoder]. Outside: literals that ISLa's text parser rejects, larger inputs.",
   design="§3 C17"),
 "C18": dict(level="other", technique="CrossHair (z3): solver-driven exhaustive enumeration of bounded inputs; call sequences on long-lived ISLaSolver objects vs. the reference semantics",
   text=BOUNDED + "Every closed tree of the assignment grammar with <= 2/3 statements + 9 non-members x 10 constraints, on one solver object per constraint: check(tree) = check(str) = reference verdict, parse raises "
        "SyntaxError/SemanticError exactly when due, answers are stable across a call sequence (parse with skip_check, then check/parse again), repair returns valid inputs unchanged and otherwise nothing or a valid input, every tree returned by mutate is valid.",
   note="Trusted: checks/refsem.py. [decoder]. repair/mutate run the solver loop with internal wall-clock timeouts (calls over 20 s abandoned, unreproducible failures inconclusive).",
   design="§3 C18"),
 "C13": dict(level="other", technique="CrossHair (z3): solver-driven exhaustive enumeration of bounded host trees; real insert_tree for every portfolio tree and every combination of insertion methods",
   text=BOUNDED + "Every host tree decodable from <= 4/6 choices over 6 grammars (assignment language, XML-like self embedding, left recursion, alternatives of different length, nonterminal-like terminals, unreachable recursion) x 3 insertable trees per nonterminal x all 7 method combinations: each result is a valid tree with the host's root, "
        "contains every original node exactly once with its label, contains the inserted tree (its open leaves may be filled), and is internally consistent.",
   note="Trusted: validator / traversal in the harness. [decoder]. Outside: larger trees, insert_trees.",
   design="§3 C13"),
 "C01": dict(level="other", technique="CrossHair (z3): solver-driven exhaustive enumeration of a bounded configuration space (constraint x solver settings x seed); the real ISLaSolver run per configuration, solutions judged by the reference semantics",
   text=BOUNDED + "The solve loop is a heap algorithm around Z3 calls and cannot be encoded; what is decided is: for EVERY configuration of a bounded space (23 constraints incl. requested start symbols and a second grammar x free/SMT instantiation limits x optimized queries x unique trees x "
        "insertion methods x unsat support x seed) every solution of the first 3/8 solve() calls is closed, a derivation tree of the grammar, re-parses and satisfies the constraint under the reference semantics.",
   note="Trusted: checks/refsem.py, validator. [decoder]. Configurations whose first call exceeds a wall-clock guard are abandoned and listed. Outside: other grammars/constraints/settings, longer solution sequences.",
   design="§3 C01"),
 "C02": dict(level="other", technique="CrossHair (z3): solver-driven exhaustive enumeration of the configuration space and of clock increment vectors; the real ISLaSolver.solve() with isla.solver's clock replaced by a stub",
   text=BOUNDED + "For every configuration of the C01 space: each solve() call returns a tree or raises StopIteration/TimeoutError, never anything else, and after the first of these every later call raises the same; with timeout_seconds set "
        "the clock is a stub advancing by 0/0.6/7 s per reading according to every increment vector of length <= 2, so the timeout strikes at every reachable point.",
   note="Trusted: clock stub. [decoder]. Known findings: RuntimeError for a negative numeric model value (optimized queries), AssertionError for numeric quantifiers without optimized queries.",
   design="§3 C02"),
 "C21": dict(level="other", technique="CrossHair (z3): solver-driven exhaustive enumeration of bounded derivation trees of the shipped grammars (mixed-radix tree codes) and of solver configurations; the real evaluator / shipped predicates / ISLaSolver vs. independent validators",
   text=BOUNDED + "Decomposed: (adequacy) for every derivation tree of the shipped CSV / XML / reST grammar whose choice code is below 1536/4096 (left-to-right and right-to-left, identifiers and texts from macro sets) and every simple-TAR header "
        "over 3 names x paddings 99/100/101 x type flag x link names x 4 checksum variants: if the shipped constraint evaluates to TRUE, an independent validator (csv module, expat, docutils, hand-written tar field/checksum check) accepts the string; "
        "(solve) for every configuration of 2/6 seeds x 5 cost settings x instantiation limits, the first 6/20 solutions of the real ISLaSolver on the shipped grammar+constraint are accepted. With C01 and C03 the adequacy part gives C21 for all seeds and cost settings within the tree bound.",
   note="Trusted: the four independent validators. [decoder]. Known findings: the XML constraints allow binding the reserved prefix xml; reST body text that docutils reads as markup ('::', underline-like lines, list/markup starts). Outside: full TAR, Scriptsize-C, csvlint, larger trees.",
   design="§10 C21"),
}
NOT_APPLICABLE = {
 "C22": "a statement about pairs of OS processes, hash randomisation, identity-based hashing and Z3's internal state; not expressible as a bounded assertion over symbolic inputs of a function",
}
PENDING = "check not built yet in this revision (planned in DESIGN.md §3)"
ALL = ["C%02d" % i for i in range(1, 23)]

def main():
    checks = []
    for pid in ALL:
        if pid not in CHECKS:
            continue
        c = CHECKS[pid]
        checks.append(dict(
            property_id=pid,
            quick_cmd="/venv/bin/python checks/run.py %s --tier quick" % pid,
            thorough_cmd="/venv/bin/python checks/run.py %s --tier thorough" % pid,
            evidence_file="evidence/%s.json" % pid,
            replay_cmd_template="/venv/bin/python checks/run.py --replay {path}",
            engine=c.get("engine", "solver-based"),
            level_claimed=dict(category=c["level"], text=c["text"], design_ref=c["design"]),
            level_note=c["note"], technique=c["technique"]))
    na = []
    for pid in ALL:
        if pid in CHECKS:
            continue
        na.append(dict(property_id=pid, reason=NOT_APPLICABLE.get(pid, PENDING)))
    m = dict(
        version=1,
        setup_cmd="/venv/bin/python checks/setup.py",
        hooks=dict(guard="ISLA_VERIF", enable="no source hooks: checks monkey-patch module attributes of the imported /repo/src "
                   "modules at run time (editable install, current working tree)",
                   baseline_off_cmd=BASE, source_commits=[], add_only=True),
        engines=[
            dict(name="E-XH", path="checks/xh.py", serves_properties=[p for p in CHECKS if "CrossHair" in CHECKS[p]["technique"]],
                 kind_free_text="CrossHair 0.0.110 symbolic execution of the real Python functions with z3, one process per condition, reachability twin per harness, replay outside CrossHair"),
            dict(name="E-SMT", path="checks/smt.py", serves_properties=[p for p in CHECKS if "SMT" in CHECKS[p]["technique"]],
                 kind_free_text="SMT-LIB2 obligations over artefacts produced by the real code, decided by z3 5.1.0 and cvc5 1.0.3 (must agree), models replayed against the real code"),
            dict(name="E-TV", path="checks/fol.py", serves_properties=[p for p in CHECKS if "translation validation" in CHECKS[p]["technique"]],
                 kind_free_text="translation validation of formula rewrites: first-order encoding of ISLa formulas (trees abstracted to an arbitrary structure), equivalence decided by z3 4.11.2 in-process and re-checked by z3 5.1.0; sat answers confirmed with the real evaluate() on concrete trees"),
        ],
        checks=checks,
        not_applicable=na,
        notes="All checks: exit 0 = nothing violated (inconclusive obligations listed in evidence), 1 = replayed violation not in "
              "KNOWN_FINDINGS.txt, 2 = harness error. Fixes to /repo are 'fix:' commits listed in KNOWN_FINDINGS.txt.",
    )
    json.dump(m, open(os.path.join(HERE, "MANIFEST.json"), "w"), indent=1)
    print("wrote MANIFEST.json:", len(checks), "checks,", len(na), "not applicable")

main()
